"""AST normalisations applied by the loader before any rule looks at a module.

scalarise_records: scalar replacement of aggregates.  A local that only ever holds one freshly built
record (a module-local NamedTuple / dataclass instance, or a tuple literal) and is only used through
field access, unpacking or (for tuples) iteration is replaced by one local per field.  Rules are written
against plain locals (`dir_paths.append(p)`, `for paths in (dir_paths, file_paths)`); bundling those
locals into a record is a behaviour-preserving edit that must not change any verdict.
"""
from __future__ import annotations

import ast
import copy
from typing import Dict, List, Optional, Tuple


def _walk_own(fn: ast.AST):
    todo = list(getattr(fn, "body", []))
    while todo:
        n = todo.pop()
        yield n
        if isinstance(n, (ast.FunctionDef, ast.AsyncFunctionDef, ast.ClassDef, ast.Lambda)):
            continue
        todo.extend(ast.iter_child_nodes(n))


def record_classes(tree: ast.Module) -> Dict[str, Tuple[List[str], Dict[str, ast.AST], bool]]:
    """{class name: (fields in order, defaults, iterable?)} for module-level NamedTuple / dataclass classes."""
    out = {}
    for n in tree.body:
        if not isinstance(n, ast.ClassDef):
            continue
        is_nt = any((isinstance(b, ast.Name) and b.id == "NamedTuple") or (isinstance(b, ast.Attribute) and b.attr == "NamedTuple") for b in n.bases)
        is_dc = any(any(k in ast.dump(d) for k in ("dataclass", "define", "frozen", "attrs")) for d in n.decorator_list)
        if not (is_nt or is_dc):
            continue
        # methods are fine as long as the local is only used through its fields (checked per use)
        fields, defaults = [], {}
        for x in n.body:
            if isinstance(x, ast.AnnAssign) and isinstance(x.target, ast.Name):
                fields.append(x.target.id)
                if x.value is not None:
                    defaults[x.target.id] = x.value
        if fields:
            out[n.name] = (fields, defaults, is_nt)
    return out


def _field_values(call: ast.Call, fields: List[str], defaults: Dict[str, ast.AST]) -> Optional[List[ast.AST]]:
    vals: Dict[str, ast.AST] = {}
    if any(isinstance(a, ast.Starred) for a in call.args) or any(k.arg is None for k in call.keywords):
        return None
    if len(call.args) > len(fields):
        return None
    for f, a in zip(fields, call.args):
        vals[f] = a
    for k in call.keywords:
        if k.arg not in fields or k.arg in vals:
            return None
        vals[k.arg] = k.value
    out = []
    for f in fields:
        if f in vals:
            out.append(vals[f])
        elif f in defaults:
            d = defaults[f]
            # field(default_factory=list) -> list()
            if isinstance(d, ast.Call) and isinstance(d.func, ast.Name) and d.func.id == "field":
                fac = [k.value for k in d.keywords if k.arg == "default_factory"]
                if len(fac) != 1:
                    return None
                d = ast.Call(func=copy.deepcopy(fac[0]), args=[], keywords=[])
            out.append(copy.deepcopy(d))
        else:
            return None
    return out


class _Rewriter(ast.NodeTransformer):
    def __init__(self, var: str, fields: List[str], values: List[ast.AST], define: ast.Assign):
        self.var, self.fields, self.values, self.define = var, fields, values, define

    def _name(self, f: str, ctx, at) -> ast.Name:
        n = ast.Name(id=f"{self.var}__{f}", ctx=ctx)
        return ast.copy_location(n, at)

    def _tuple(self, at) -> ast.Tuple:
        t = ast.Tuple(elts=[self._name(f, ast.Load(), at) for f in self.fields], ctx=ast.Load())
        return ast.copy_location(t, at)

    def visit_Assign(self, node: ast.Assign):
        if node is self.define:
            out = []
            for f, v in zip(self.fields, self.values):
                a = ast.Assign(targets=[self._name(f, ast.Store(), node)], value=self.generic_visit_expr(v))
                out.append(ast.copy_location(a, node))
            return out
        return self.generic_visit(node)

    def generic_visit_expr(self, e):
        return self.visit(e)

    def visit_Attribute(self, node: ast.Attribute):
        if isinstance(node.value, ast.Name) and node.value.id == self.var and node.attr in self.fields:
            return self._name(node.attr, node.ctx, node)
        return self.generic_visit(node)

    def visit_Subscript(self, node: ast.Subscript):
        if isinstance(node.value, ast.Name) and node.value.id == self.var and isinstance(node.slice, ast.Constant) and isinstance(node.slice.value, int):
            i = node.slice.value
            if -len(self.fields) <= i < len(self.fields):
                return self._name(self.fields[i], node.ctx, node)
        return self.generic_visit(node)

    def visit_Name(self, node: ast.Name):
        if node.id == self.var and isinstance(node.ctx, ast.Load):
            return self._tuple(node)
        return node


def _scalarise_fn(fn: ast.FunctionDef, records) -> int:
    done = 0
    for _ in range(4):
        cand = None
        assigns: Dict[str, List[ast.Assign]] = {}
        for x in _walk_own(fn):
            if isinstance(x, ast.Assign) and len(x.targets) == 1 and isinstance(x.targets[0], ast.Name):
                assigns.setdefault(x.targets[0].id, []).append(x)
        params = {a.arg for a in ast.walk(fn.args) if isinstance(a, ast.arg)}
        for var, defs in assigns.items():
            if len(defs) != 1 or var in params:
                continue
            d = defs[0]
            v = d.value
            fields = values = None
            iterable = True
            if isinstance(v, ast.Call) and isinstance(v.func, ast.Name) and v.func.id in records:
                fl, defaults, iterable = records[v.func.id]
                if isinstance(defaults.get("__init__"), ast.FunctionDef):
                    values = _init_values(v, defaults["__init__"])
                else:
                    values = _field_values(v, fl, defaults)
                fields = fl
            elif isinstance(v, ast.Tuple) and v.elts and not any(isinstance(e, ast.Starred) for e in v.elts):
                fields = [str(i) for i in range(len(v.elts))]
                values = list(v.elts)
            if not fields or values is None:
                continue
            if not _uses_ok(fn, var, d, fields, iterable, is_tuple=isinstance(v, ast.Tuple)):
                continue
            cand = (var, fields, values, d)
            break
        if cand is None:
            break
        var, fields, values, d = cand
        rw = _Rewriter(var, fields, values, d)
        fn.body = [y for st in fn.body for y in _as_list(rw.visit(st))]
        ast.fix_missing_locations(fn)
        done += 1
    return done


def _as_list(x):
    return x if isinstance(x, list) else [x]


def _uses_ok(fn, var, define, fields, iterable, is_tuple) -> bool:
    """every use of `var` is a field access, a constant index, whole-value iteration or unpacking."""
    parent: Dict[int, ast.AST] = {}
    for x in ast.walk(fn):
        for c in ast.iter_child_nodes(x):
            parent[id(c)] = x
    n_field_uses = 0
    for x in ast.walk(fn):
        if not (isinstance(x, ast.Name) and x.id == var):
            continue
        p = parent.get(id(x))
        if isinstance(x.ctx, ast.Store):
            if p is define:
                continue
            return False
        if isinstance(x.ctx, ast.Del):
            return False
        if isinstance(p, ast.Attribute) and p.value is x:
            if is_tuple or p.attr not in fields:
                return False
            n_field_uses += 1
            continue
        if isinstance(p, ast.Subscript) and p.value is x and isinstance(p.slice, ast.Constant) and isinstance(p.slice.value, int):
            if not iterable:
                return False
            n_field_uses += 1
            continue
        if isinstance(p, (ast.For, ast.comprehension)) and p.iter is x and iterable:
            continue
        if isinstance(p, ast.Assign) and p.value is x and len(p.targets) == 1 and isinstance(p.targets[0], ast.Tuple) and len(p.targets[0].elts) == len(fields) and iterable:
            continue
        return False
    return n_field_uses > 0 or is_tuple is False


def init_classes(tree: ast.Module) -> Dict[str, Tuple[List[str], ast.FunctionDef]]:
    """{private class name: (attributes in order, its __init__)} for module-level plain classes whose __init__ only
    stores `self.<attr> = <expression over its parameters>` (the 'small state object' a long function is turned into)."""
    out = {}
    for n in tree.body:
        if not (isinstance(n, ast.ClassDef) and n.name.startswith("_")):
            continue
        if any(not (isinstance(b, ast.Name) and b.id == "object") for b in n.bases) or n.decorator_list:
            continue
        init = next((m for m in n.body if isinstance(m, ast.FunctionDef) and m.name == "__init__"), None)
        if init is None or init.args.vararg or init.args.kwarg or not init.args.args:
            continue
        self_name = init.args.args[0].arg
        params = {a.arg for a in init.args.args[1:] + init.args.kwonlyargs}
        fields, ok = [], True
        for st in init.body:
            if isinstance(st, ast.Expr) and isinstance(st.value, ast.Constant) and isinstance(st.value.value, str):
                continue
            tg = st.targets[0] if isinstance(st, ast.Assign) and len(st.targets) == 1 else (st.target if isinstance(st, ast.AnnAssign) and st.value is not None else None)
            if not (isinstance(tg, ast.Attribute) and isinstance(tg.value, ast.Name) and tg.value.id == self_name):
                ok = False
                break
            names = {x.id for x in ast.walk(st.value) if isinstance(x, ast.Name)}
            if self_name in names or tg.attr in fields:
                ok = False
                break
            fields.append(tg.attr)
        if ok and fields:
            out[n.name] = (fields, init)
    return out


def _init_values(call: ast.Call, init: ast.FunctionDef) -> Optional[List[ast.AST]]:
    """the expressions __init__ stores, with its parameters replaced by the call's arguments"""
    if any(isinstance(a, ast.Starred) for a in call.args) or any(k.arg is None for k in call.keywords):
        return None
    pos = init.args.args[1:]
    if len(call.args) > len(pos):
        return None
    bind: Dict[str, ast.AST] = {}
    for a, v in zip(pos, call.args):
        bind[a.arg] = v
    allp = {a.arg for a in pos + init.args.kwonlyargs}
    for k in call.keywords:
        if k.arg not in allp or k.arg in bind:
            return None
        bind[k.arg] = k.value
    dflt = dict(zip([a.arg for a in pos][len(pos) - len(init.args.defaults):], init.args.defaults))
    for a, d in zip(init.args.kwonlyargs, init.args.kw_defaults):
        if d is not None:
            dflt[a.arg] = d
    for nm in allp:
        if nm not in bind:
            if nm not in dflt:
                return None
            bind[nm] = copy.deepcopy(dflt[nm])
    # an argument expression is duplicated only when it is a plain name / constant / attribute chain
    vals = []
    for st in init.body:
        if isinstance(st, ast.Expr):
            continue
        v = copy.deepcopy(st.value)
        for x in ast.walk(v):
            if isinstance(x, ast.Name) and x.id in bind and not isinstance(bind[x.id], (ast.Name, ast.Constant, ast.Attribute)):
                return None
        vals.append(_SubstNames({k: v2 for k, v2 in bind.items()}).visit(v))
    return vals


def scalarise_records(tree: ast.Module) -> int:
    records = record_classes(tree)
    for cname, (fields, init) in init_classes(tree).items():
        if cname not in records:
            records[cname] = (fields, {"__init__": init}, False)
    n = 0
    for x in ast.walk(tree):
        if isinstance(x, (ast.FunctionDef, ast.AsyncFunctionDef)):
            n += _scalarise_fn(x, records)
    return n


# --------------------------------------------------------------------------
# forward substitution of adjacent single-use temporaries; bool(x) in test position
# --------------------------------------------------------------------------

_HEADER_FIELDS = {
    ast.If: ("test",),
    ast.For: ("iter",),
    ast.With: ("items",),
    ast.Return: ("value",),
    ast.Expr: ("value",),
    ast.Assign: ("value", "targets"),
    ast.AugAssign: ("value", "target"),
    ast.AnnAssign: ("value",),
    ast.Raise: ("exc", "cause"),
    ast.Assert: ("test", "msg"),
}


def _header_exprs(s: ast.stmt) -> List[ast.AST]:
    out = []
    for f in _HEADER_FIELDS.get(type(s), ()):
        v = getattr(s, f, None)
        if isinstance(v, list):
            out += [x for x in v if isinstance(x, ast.AST)]
        elif isinstance(v, ast.AST):
            out.append(v)
    return out


def _single_use_in(exprs: List[ast.AST], name: str) -> Optional[ast.Name]:
    """the one Load of `name` in the expressions, provided it is evaluated exactly once (not under a
    comprehension / lambda / conditional expression arm / short-circuit right operand)."""
    found: List[ast.Name] = []

    def rec(e: ast.AST, once: bool):
        if isinstance(e, ast.Name):
            if e.id == name:
                found.append(e if (once and isinstance(e.ctx, ast.Load)) else None)
            return
        if isinstance(e, (ast.Lambda, ast.ListComp, ast.SetComp, ast.DictComp, ast.GeneratorExp)):
            for c in ast.iter_child_nodes(e):
                rec(c, False)
            return
        if isinstance(e, ast.IfExp):
            rec(e.test, once)
            rec(e.body, False)
            rec(e.orelse, False)
            return
        if isinstance(e, ast.BoolOp):
            rec(e.values[0], once)
            for v in e.values[1:]:
                rec(v, False)
            return
        for c in ast.iter_child_nodes(e):
            rec(c, once)

    for e in exprs:
        rec(e, True)
    if len(found) == 1 and found[0] is not None:
        return found[0]
    return None


class _Subst(ast.NodeTransformer):
    def __init__(self, target: ast.Name, value: ast.AST):
        self.target, self.value = target, value

    def visit_Name(self, node):
        if node is self.target:
            return ast.copy_location(copy.deepcopy(self.value), node) if False else self.value
        return node


def _name_counts(fn: ast.AST) -> Tuple[Dict[str, int], Dict[str, int], set]:
    loads: Dict[str, int] = {}
    stores: Dict[str, int] = {}
    banned = set()
    for x in ast.walk(fn):
        if isinstance(x, ast.Name):
            if isinstance(x.ctx, ast.Load):
                loads[x.id] = loads.get(x.id, 0) + 1
            else:
                stores[x.id] = stores.get(x.id, 0) + 1
        elif isinstance(x, (ast.Global, ast.Nonlocal)):
            banned.update(x.names)
        elif isinstance(x, ast.arg):
            banned.add(x.arg)
        elif isinstance(x, ast.AugAssign) and isinstance(x.target, ast.Name):
            loads[x.target.id] = loads.get(x.target.id, 0) + 1
        elif x is not fn and isinstance(x, (ast.FunctionDef, ast.AsyncFunctionDef, ast.ClassDef)):
            stores[x.name] = stores.get(x.name, 0) + 1  # `def name` / `class name` bind the name as well
        elif isinstance(x, ast.ExceptHandler) and x.name:
            stores[x.name] = stores.get(x.name, 0) + 1
    # names used inside nested functions / lambdas are not substituted
    for x in ast.walk(fn):
        if x is not fn and isinstance(x, (ast.FunctionDef, ast.AsyncFunctionDef, ast.Lambda)):
            for y in ast.walk(x):
                if isinstance(y, ast.Name):
                    banned.add(y.id)
    return loads, stores, banned


def _subst_in_list(stmts: List[ast.stmt], loads, stores, banned) -> int:
    n = 0
    i = 0
    while i < len(stmts) - 1:
        s, nxt = stmts[i], stmts[i + 1]
        ok = (
            isinstance(s, ast.Assign) and len(s.targets) == 1 and isinstance(s.targets[0], ast.Name)
            and not isinstance(s.value, (ast.Yield, ast.YieldFrom, ast.Await, ast.NamedExpr))
        )
        if ok:
            t = s.targets[0].id
            if t not in banned and loads.get(t, 0) == 1 and stores.get(t, 0) == 1 and not t.startswith("_sv_"):
                use = _single_use_in(_header_exprs(nxt), t)
                if use is not None:
                    rw = _Subst(use, s.value)
                    for f in _HEADER_FIELDS.get(type(nxt), ()):
                        v = getattr(nxt, f, None)
                        if isinstance(v, list):
                            setattr(nxt, f, [rw.visit(x) for x in v])
                        elif isinstance(v, ast.AST):
                            setattr(nxt, f, rw.visit(v))
                    del stmts[i]
                    loads[t] = 0
                    stores[t] = 0
                    n += 1
                    i = max(i - 1, 0)
                    continue
        i += 1
    for s in stmts:
        if isinstance(s, (ast.FunctionDef, ast.AsyncFunctionDef, ast.ClassDef)):
            continue
        for fld in ("body", "orelse", "finalbody"):
            sub = getattr(s, fld, None)
            if isinstance(sub, list) and sub and isinstance(sub[0], ast.stmt):
                n += _subst_in_list(sub, loads, stores, banned)
        if isinstance(s, ast.Try):
            for h in s.handlers:
                n += _subst_in_list(h.body, loads, stores, banned)
    return n


def _strip_bool_tests(fn: ast.AST) -> int:
    n = 0

    def strip(e: ast.AST) -> ast.AST:
        nonlocal n
        if isinstance(e, ast.Call) and isinstance(e.func, ast.Name) and e.func.id == "bool" and len(e.args) == 1 and not e.keywords and not isinstance(e.args[0], ast.Starred):
            n += 1
            return strip(e.args[0])
        if isinstance(e, ast.UnaryOp) and isinstance(e.op, ast.Not):
            e.operand = strip(e.operand)
        elif isinstance(e, ast.BoolOp):
            e.values = [strip(v) for v in e.values]
        return e

    for x in ast.walk(fn):
        if isinstance(x, (ast.If, ast.While, ast.IfExp, ast.Assert)):
            x.test = strip(x.test)
        elif isinstance(x, ast.comprehension):
            x.ifs = [strip(i) for i in x.ifs]
    return n


def forward_substitute_temps(tree: ast.Module) -> int:
    total = 0
    for fn in ast.walk(tree):
        if not isinstance(fn, (ast.FunctionDef, ast.AsyncFunctionDef)):
            continue
        for _ in range(6):
            loads, stores, banned = _name_counts(fn)
            k = _subst_in_list(fn.body, loads, stores, banned)
            total += k
            if not k:
                break
        total += _strip_bool_tests(fn)
    return total


# --------------------------------------------------------------------------
# copy coalescing:  a = x  (x dead afterwards, a defined only here)  ->  rename x to a
# --------------------------------------------------------------------------

def _ordered_names(fn: ast.AST) -> List[ast.Name]:
    out: List[ast.Name] = []

    def rec(n: ast.AST):
        if isinstance(n, ast.Name):
            out.append(n)
            return
        if isinstance(n, (ast.Assign, ast.AnnAssign, ast.AugAssign)):
            # evaluation order: value first, then targets
            v = getattr(n, "value", None)
            if v is not None:
                rec(v)
            for t in (n.targets if isinstance(n, ast.Assign) else [n.target]):
                rec(t)
            return
        for c in ast.iter_child_nodes(n):
            rec(c)

    for st in fn.body:
        rec(st)
    return out


def _split_tuple_assigns(fn: ast.AST) -> int:
    """a, b = x, f(y)   ->   a = x; b = f(y)     when no target is read on the right-hand side"""
    n = 0
    lists = [fn.body]
    for x in _walk_own(fn):
        for fld in ("body", "orelse", "finalbody"):
            sub = getattr(x, fld, None)
            if isinstance(sub, list) and sub and isinstance(sub[0], ast.stmt) and not isinstance(x, (ast.FunctionDef, ast.AsyncFunctionDef, ast.ClassDef)):
                lists.append(sub)
        if isinstance(x, ast.Try):
            lists += [h.body for h in x.handlers]
    for lst in lists:
        i = 0
        while i < len(lst):
            st = lst[i]
            if (isinstance(st, ast.Assign) and len(st.targets) == 1 and isinstance(st.targets[0], (ast.Tuple, ast.List)) and isinstance(st.value, (ast.Tuple, ast.List))
                    and len(st.targets[0].elts) == len(st.value.elts) and all(isinstance(t, ast.Name) for t in st.targets[0].elts) and not any(isinstance(v, ast.Starred) for v in st.value.elts)):
                tnames = {t.id for t in st.targets[0].elts}
                rnames = {y.id for v in st.value.elts for y in ast.walk(v) if isinstance(y, ast.Name)}
                if not (tnames & rnames) and len(tnames) == len(st.targets[0].elts):
                    new = []
                    for t, v in zip(st.targets[0].elts, st.value.elts):
                        a = ast.Assign(targets=[t], value=v, type_comment=None)
                        ast.copy_location(a, st)
                        new.append(a)
                    lst[i:i + 1] = new
                    n += 1
                    i += len(new)
                    continue
            i += 1
    return n


def coalesce_copies(tree: ast.Module) -> int:
    total = 0
    for fn in ast.walk(tree):
        if not isinstance(fn, (ast.FunctionDef, ast.AsyncFunctionDef)):
            continue
        _split_tuple_assigns(fn)
        for _ in range(8):
            loads, stores, banned = _name_counts(fn)
            order = _ordered_names(fn)
            pos = {id(n): i for i, n in enumerate(order)}
            done = False
            all_lists = [fn.body]
            for x in _walk_own(fn):
                for fld in ("body", "orelse", "finalbody"):
                    sub = getattr(x, fld, None)
                    if isinstance(sub, list) and sub and isinstance(sub[0], ast.stmt) and not isinstance(x, (ast.FunctionDef, ast.AsyncFunctionDef, ast.ClassDef)):
                        all_lists.append(sub)
                if isinstance(x, ast.Try):
                    all_lists += [h.body for h in x.handlers]
            for body_list, idx, st in [(bl, i_, s_) for bl in all_lists for i_, s_ in enumerate(bl)]:
                if not (isinstance(st, ast.Assign) and len(st.targets) == 1):
                    continue
                tg, val = st.targets[0], st.value
                if isinstance(tg, ast.Name) and isinstance(val, ast.Name):
                    pairs = [(tg, val)]
                elif isinstance(tg, (ast.Tuple, ast.List)) and isinstance(val, (ast.Tuple, ast.List)) and len(tg.elts) == len(val.elts) and all(isinstance(e, ast.Name) for e in list(tg.elts) + list(val.elts)):
                    pairs = list(zip(tg.elts, val.elts))
                else:
                    continue
                lhs = [a.id for a, _x in pairs]
                rhs = [x.id for _a, x in pairs]
                if len(set(lhs)) != len(lhs) or len(set(rhs)) != len(rhs) or set(lhs) & set(rhs):
                    continue
                ok = True
                last_here = max(pos[id(n)] for n in ast.walk(st) if isinstance(n, ast.Name))
                for a, x in pairs:
                    if a.id in banned or x.id in banned or stores.get(a.id, 0) != 1 or stores.get(x.id, 0) < 1:
                        ok = False
                        break
                    # a is not read before this statement, x is neither read nor written after it
                    if any(n.id == a.id and pos[id(n)] < pos[id(a)] for n in order):
                        ok = False
                        break
                    if any(n.id == x.id and pos[id(n)] > last_here for n in order):
                        ok = False
                        break
                if not ok:
                    continue
                ren = {x.id: a.id for a, x in pairs}
                del body_list[idx]
                if not body_list:
                    body_list.append(ast.Pass())
                for n in ast.walk(fn):
                    if isinstance(n, ast.Name) and n.id in ren:
                        n.id = ren[n.id]
                total += 1
                done = True
                break
            if not done:
                break
    return total


# --------------------------------------------------------------------------
# table-driven loops:  for a, b in ((x1, y1), (x2, y2)): BODY   ->   BODY[x1,y1]; BODY[x2,y2]
# --------------------------------------------------------------------------

class _SubstNames(ast.NodeTransformer):
    def __init__(self, mapping: Dict[str, ast.AST]):
        self.mapping = mapping

    def visit_Name(self, node):
        if isinstance(node.ctx, ast.Load) and node.id in self.mapping:
            return ast.copy_location(copy.deepcopy(self.mapping[node.id]), node)
        return node


def _fold_guard_continues(body: List[ast.stmt]) -> List[ast.stmt]:
    """`if c: continue; REST`  ->  `if not c: REST`  (guard clauses at the top level of a loop body)"""
    for i, st in enumerate(body):
        if isinstance(st, ast.If) and not st.orelse and len(st.body) == 1 and isinstance(st.body[0], ast.Continue):
            rest = _fold_guard_continues(body[i + 1:])
            if not rest:
                return body[:i] + [ast.copy_location(ast.Expr(value=st.test), st)]
            neg = st.test.operand if isinstance(st.test, ast.UnaryOp) and isinstance(st.test.op, ast.Not) else ast.UnaryOp(op=ast.Not(), operand=st.test)
            new = ast.If(test=neg, body=rest, orelse=[])
            ast.copy_location(new, st)
            ast.fix_missing_locations(new)
            return body[:i] + [new]
    return body


def _unroll_in_list(stmts: List[ast.stmt]) -> int:
    n = 0
    i = 0
    while i < len(stmts):
        s = stmts[i]
        if isinstance(s, (ast.FunctionDef, ast.AsyncFunctionDef, ast.ClassDef)):
            i += 1
            continue
        for fld in ("body", "orelse", "finalbody"):
            sub = getattr(s, fld, None)
            if isinstance(sub, list) and sub and isinstance(sub[0], ast.stmt):
                n += _unroll_in_list(sub)
        if isinstance(s, ast.Try):
            for h in s.handlers:
                n += _unroll_in_list(h.body)
        if (isinstance(s, ast.For) and not s.orelse and isinstance(s.target, (ast.Tuple, ast.List)) and all(isinstance(t, ast.Name) for t in s.target.elts)
                and isinstance(s.iter, (ast.Tuple, ast.List)) and 1 <= len(s.iter.elts) <= 24
                and all(isinstance(r, (ast.Tuple, ast.List)) and len(r.elts) == len(s.target.elts) and not any(isinstance(e, ast.Starred) for e in r.elts) for r in s.iter.elts)):
            names = [t.id for t in s.target.elts]
            s.body = _fold_guard_continues(s.body)
            body_nodes = [x for st in s.body for x in ast.walk(st)]
            simple = not any(isinstance(x, (ast.Break, ast.Continue, ast.Return, ast.Yield, ast.YieldFrom, ast.FunctionDef, ast.Lambda)) for x in body_nodes)
            stores = any(isinstance(x, ast.Name) and x.id in names and not isinstance(x.ctx, ast.Load) for x in body_nodes)
            if simple and not stores:
                out: List[ast.stmt] = []
                for row in s.iter.elts:
                    mp = dict(zip(names, row.elts))
                    for st in s.body:
                        new = _SubstNames(mp).visit(copy.deepcopy(st))
                        ast.copy_location(new, row)
                        ast.fix_missing_locations(new)
                        out.append(new)
                stmts[i:i + 1] = out
                n += 1
                i += len(out)
                continue
        i += 1
    return n


def _unroll_name_loops(stmts: List[ast.stmt]) -> int:
    """`for p in (self.A, self.B): v = getattr(self, p); if v: ret[p] = v`  ->  the body once per element, the loop-local
    temporary bound first to a pure expression put back (a table of constant-like elements: literals / UPPER_CASE attributes)."""
    n = 0
    i = 0
    while i < len(stmts):
        s = stmts[i]
        if isinstance(s, (ast.FunctionDef, ast.AsyncFunctionDef, ast.ClassDef)):
            i += 1
            continue
        for fld in ("body", "orelse", "finalbody"):
            sub = getattr(s, fld, None)
            if isinstance(sub, list) and sub and isinstance(sub[0], ast.stmt):
                n += _unroll_name_loops(sub)
        if isinstance(s, ast.Try):
            for h in s.handlers:
                n += _unroll_name_loops(h.body)

        def const_like(e):
            return (isinstance(e, ast.Constant) and isinstance(e.value, str)) or (isinstance(e, ast.Attribute) and e.attr.isupper() and isinstance(e.value, ast.Name) and e.value.id in ("self", "cls"))

        if isinstance(s, ast.For) and not s.orelse and isinstance(s.target, ast.Name) and isinstance(s.iter, (ast.Tuple, ast.List)) and 2 <= len(s.iter.elts) <= 16 and all(const_like(e) for e in s.iter.elts):
            body = _fold_guard_continues(list(s.body))
            nodes = [x for st in body for x in ast.walk(st)]
            simple = not any(isinstance(x, (ast.Break, ast.Continue, ast.Return, ast.Yield, ast.YieldFrom, ast.FunctionDef, ast.Lambda)) for x in nodes)
            stores_t = any(isinstance(x, ast.Name) and x.id == s.target.id and not isinstance(x.ctx, ast.Load) for x in nodes)
            if simple and not stores_t:
                tmp = None
                if body and isinstance(body[0], ast.Assign) and len(body[0].targets) == 1 and isinstance(body[0].targets[0], ast.Name) and isinstance(body[0].value, ast.Call) \
                        and isinstance(body[0].value.func, ast.Name) and body[0].value.func.id == "getattr" and len(body[0].value.args) == 2 and not body[0].value.keywords:
                    nm = body[0].targets[0].id
                    later = [x for st in body[1:] for x in ast.walk(st) if isinstance(x, ast.Name) and x.id == nm]
                    outside = [x for st in stmts[i + 1:] for x in ast.walk(st) if isinstance(x, ast.Name) and x.id == nm]
                    if later and all(isinstance(x.ctx, ast.Load) for x in later) and not outside:
                        tmp = (nm, body[0].value)
                        body = body[1:]
                out: List[ast.stmt] = []
                for e in s.iter.elts:
                    mp = {s.target.id: e}
                    for st in body:
                        st2 = copy.deepcopy(st)
                        if tmp is not None:
                            st2 = _SubstNames({tmp[0]: tmp[1]}).visit(st2)
                        new = _SubstNames(mp).visit(st2)
                        ast.copy_location(new, e)
                        ast.fix_missing_locations(new)
                        out.append(new)
                stmts[i:i + 1] = out
                n += 1
                i += len(out)
                continue
        i += 1
    return n


def fold_const_getattr(tree: ast.Module) -> int:
    """`getattr(self, self.PARAM_ETAG)` with `PARAM_ETAG = "etag"` a class-level string constant  ->  `self.etag`"""
    n = 0
    for cls in ast.walk(tree):
        if not isinstance(cls, ast.ClassDef):
            continue
        consts = {}
        for st in cls.body:
            tg = st.targets[0] if isinstance(st, ast.Assign) and len(st.targets) == 1 else (st.target if isinstance(st, ast.AnnAssign) else None)
            v = getattr(st, "value", None)
            if isinstance(tg, ast.Name) and isinstance(v, ast.Constant) and isinstance(v.value, str) and v.value.isidentifier():
                consts[tg.id] = v.value
        if not consts:
            continue

        class R(ast.NodeTransformer):
            def visit_Call(self, c):
                nonlocal n
                self.generic_visit(c)
                if isinstance(c.func, ast.Name) and c.func.id == "getattr" and len(c.args) == 2 and not c.keywords and isinstance(c.args[0], ast.Name) and c.args[0].id in ("self", "cls") \
                        and isinstance(c.args[1], ast.Attribute) and isinstance(c.args[1].value, ast.Name) and c.args[1].value.id in ("self", "cls") and c.args[1].attr in consts:
                    n += 1
                    return ast.copy_location(ast.Attribute(value=c.args[0], attr=consts[c.args[1].attr], ctx=ast.Load()), c)
                return c

        for m in cls.body:
            if isinstance(m, (ast.FunctionDef, ast.AsyncFunctionDef)):
                R().visit(m)
                ast.fix_missing_locations(m)
    return n


def unroll_table_loops(tree: ast.Module) -> int:
    total = 0
    for fn in ast.walk(tree):
        if isinstance(fn, (ast.FunctionDef, ast.AsyncFunctionDef)):
            total += _unroll_in_list(fn.body)
            total += _unroll_name_loops(fn.body)
    total += fold_const_getattr(tree)
    return total


# --------------------------------------------------------------------------
# search idioms:  x = next((E for T in L if C), None); if x is not None: <exit>   ->   for T in L: if C: x = E; <exit>
#                 if any(C for T in L): <exit>                                    ->   for T in L: if C: <exit>
# --------------------------------------------------------------------------

def _always_exits(stmts: List[ast.stmt]) -> bool:
    if not stmts:
        return False
    last = stmts[-1]
    if isinstance(last, (ast.Raise, ast.Return, ast.Continue, ast.Break)):
        return True
    if isinstance(last, ast.If) and last.orelse:
        return _always_exits(last.body) and _always_exits(last.orelse)
    return False


def _search_in_list(stmts: List[ast.stmt]) -> int:
    n = 0
    i = 0
    while i < len(stmts):
        s = stmts[i]
        if isinstance(s, (ast.FunctionDef, ast.AsyncFunctionDef, ast.ClassDef)):
            i += 1
            continue
        for fld in ("body", "orelse", "finalbody"):
            sub = getattr(s, fld, None)
            if isinstance(sub, list) and sub and isinstance(sub[0], ast.stmt):
                n += _search_in_list(sub)
        if isinstance(s, ast.Try):
            for h in s.handlers:
                n += _search_in_list(h.body)
        nxt = stmts[i + 1] if i + 1 < len(stmts) else None
        # x = next((E for T in L if C), None) ; if x is not None / if x: <exit>
        if (isinstance(s, ast.Assign) and len(s.targets) == 1 and isinstance(s.targets[0], ast.Name) and isinstance(s.value, ast.Call) and isinstance(s.value.func, ast.Name)
                and s.value.func.id == "next" and len(s.value.args) == 2 and isinstance(s.value.args[0], ast.GeneratorExp) and len(s.value.args[0].generators) == 1
                and isinstance(s.value.args[1], ast.Constant) and s.value.args[1].value is None and isinstance(nxt, ast.If) and not nxt.orelse and _always_exits(nxt.body)
                and not any(isinstance(x, (ast.Continue, ast.Break)) for st in nxt.body for x in ast.walk(st))):
            x = s.targets[0].id
            t = nxt.test
            is_found = (isinstance(t, ast.Name) and t.id == x) or (isinstance(t, ast.Compare) and len(t.ops) == 1 and isinstance(t.ops[0], ast.IsNot) and isinstance(t.left, ast.Name) and t.left.id == x
                                                                      and isinstance(t.comparators[0], ast.Constant) and t.comparators[0].value is None)
            if is_found:
                gen = s.value.args[0].generators[0]
                inner: List[ast.stmt] = [ast.Assign(targets=[ast.Name(id=x, ctx=ast.Store())], value=s.value.args[0].elt, type_comment=None)] + list(nxt.body)
                for cond in reversed(gen.ifs):
                    inner = [ast.If(test=cond, body=inner, orelse=[])]
                loop = ast.For(target=gen.target, iter=gen.iter, body=inner, orelse=[], type_comment=None)
                ast.copy_location(loop, s)
                ast.fix_missing_locations(loop)
                stmts[i:i + 2] = [loop]
                n += 1
                continue
        # if any(C for T in L): <exit>      /     if not all(C for T in L): <exit>
        if isinstance(s, ast.If) and not s.orelse and _always_exits(s.body) and not any(isinstance(x, (ast.Continue, ast.Break)) for st in s.body for x in ast.walk(st)):
            t, neg = s.test, False
            if isinstance(t, ast.UnaryOp) and isinstance(t.op, ast.Not):
                t, neg = t.operand, True
            if (isinstance(t, ast.Call) and isinstance(t.func, ast.Name) and t.func.id in ("any", "all") and len(t.args) == 1 and isinstance(t.args[0], ast.GeneratorExp)
                    and len(t.args[0].generators) == 1 and ((t.func.id == "any") != neg)):
                gen = t.args[0].generators[0]
                cond = t.args[0].elt if t.func.id == "any" else ast.UnaryOp(op=ast.Not(), operand=t.args[0].elt)
                inner = [ast.If(test=cond, body=list(s.body), orelse=[])]
                for c2 in reversed(gen.ifs):
                    inner = [ast.If(test=c2, body=inner, orelse=[])]
                loop = ast.For(target=gen.target, iter=gen.iter, body=inner, orelse=[], type_comment=None)
                ast.copy_location(loop, s)
                ast.fix_missing_locations(loop)
                stmts[i] = loop
                n += 1
        i += 1
    return n


def expand_search_idioms(tree: ast.Module) -> int:
    total = 0
    for fn in ast.walk(tree):
        if isinstance(fn, (ast.FunctionDef, ast.AsyncFunctionDef)):
            total += _search_in_list(fn.body)
    return total


# --------------------------------------------------------------------------
# walrus hoisting and contextlib.suppress
# --------------------------------------------------------------------------

def _hoist_walrus_in_list(stmts: List[ast.stmt]) -> int:
    n = 0
    i = 0
    while i < len(stmts):
        s = stmts[i]
        if isinstance(s, (ast.FunctionDef, ast.AsyncFunctionDef, ast.ClassDef)):
            i += 1
            continue
        for fld in ("body", "orelse", "finalbody"):
            sub = getattr(s, fld, None)
            if isinstance(sub, list) and sub and isinstance(sub[0], ast.stmt):
                n += _hoist_walrus_in_list(sub)
        if isinstance(s, ast.Try):
            for h in s.handlers:
                n += _hoist_walrus_in_list(h.body)
        # only where the walrus is evaluated unconditionally and first: the test itself, the left-most
        # operand chain of the test (`(x := E) is None`, `not (x := E)`, first operand of and/or)
        if isinstance(s, (ast.If, ast.Assign, ast.Return, ast.Expr)):
            holder = "test" if isinstance(s, ast.If) else "value"
            top = getattr(s, holder, None)

            def first_walrus(e):
                if isinstance(e, ast.NamedExpr) and isinstance(e.target, ast.Name):
                    return e
                if isinstance(e, ast.UnaryOp):
                    return first_walrus(e.operand)
                if isinstance(e, ast.BoolOp):
                    return first_walrus(e.values[0])
                if isinstance(e, ast.Compare):
                    return first_walrus(e.left)
                if isinstance(e, ast.Call) and isinstance(e.func, ast.Attribute):
                    return first_walrus(e.func.value)
                if isinstance(e, ast.Attribute):
                    return first_walrus(e.value)
                if isinstance(e, ast.Subscript):
                    return first_walrus(e.value)
                return None

            w = first_walrus(top) if top is not None else None
            if w is not None:
                asg = ast.Assign(targets=[ast.Name(id=w.target.id, ctx=ast.Store())], value=w.value, type_comment=None)
                ast.copy_location(asg, s)

                class R(ast.NodeTransformer):
                    def visit_NamedExpr(self, node):
                        if node is w:
                            return ast.copy_location(ast.Name(id=w.target.id, ctx=ast.Load()), node)
                        return self.generic_visit(node)

                    def generic_visit(self, node):
                        for field, old in ast.iter_fields(node):
                            if isinstance(old, list):
                                if old and isinstance(old[0], ast.stmt):
                                    continue
                                old[:] = [self.visit(v) if isinstance(v, ast.AST) else v for v in old]
                            elif isinstance(old, ast.AST):
                                setattr(node, field, self.visit(old))
                        return node

                setattr(s, holder, R().visit(top))
                ast.fix_missing_locations(asg)
                stmts.insert(i, asg)
                n += 1
                continue  # re-examine the same statement (now at i+1 after insert) for further walruses
        i += 1
    return n


def _suppress_to_try(stmts: List[ast.stmt]) -> int:
    n = 0
    for i, s in enumerate(list(stmts)):
        if isinstance(s, (ast.FunctionDef, ast.AsyncFunctionDef, ast.ClassDef)):
            continue
        for fld in ("body", "orelse", "finalbody"):
            sub = getattr(s, fld, None)
            if isinstance(sub, list) and sub and isinstance(sub[0], ast.stmt):
                n += _suppress_to_try(sub)
        if isinstance(s, ast.Try):
            for h in s.handlers:
                n += _suppress_to_try(h.body)
        if isinstance(s, ast.With) and len(s.items) == 1 and s.items[0].optional_vars is None:
            c = s.items[0].context_expr
            nm = c.func.id if isinstance(c, ast.Call) and isinstance(c.func, ast.Name) else (c.func.attr if isinstance(c, ast.Call) and isinstance(c.func, ast.Attribute) else None)
            if nm == "suppress" and c.args and not c.keywords:
                typ = c.args[0] if len(c.args) == 1 else ast.Tuple(elts=list(c.args), ctx=ast.Load())
                h = ast.ExceptHandler(type=typ, name=None, body=[ast.Pass()])
                t = ast.Try(body=s.body, handlers=[h], orelse=[], finalbody=[])
                for x in (h, t):
                    ast.copy_location(x, s)
                ast.fix_missing_locations(t)
                stmts[stmts.index(s)] = t
                n += 1
    return n


def _match_to_if(tree: ast.Module) -> int:
    """`match subj:` over literal / dotted-name / singleton patterns (with `|`, guards, a final wildcard or capture)
    ->  the equivalent if / elif chain (`subj == V`, `subj is None`).  Structural patterns are left alone."""
    n = 0
    tmp = [0]

    def cond(p, subj):
        if isinstance(p, ast.MatchValue):
            return ast.Compare(left=copy.deepcopy(subj), ops=[ast.Eq()], comparators=[copy.deepcopy(p.value)])
        if isinstance(p, ast.MatchSingleton):
            return ast.Compare(left=copy.deepcopy(subj), ops=[ast.Is()], comparators=[ast.Constant(value=p.value)])
        if isinstance(p, ast.MatchOr):
            parts = [cond(q, subj) for q in p.patterns]
            if any(x is None for x in parts):
                return None
            return ast.BoolOp(op=ast.Or(), values=parts)
        return None

    def convert(m: ast.Match):
        pre = []
        subj = m.subject
        if not (isinstance(subj, ast.Name) or (isinstance(subj, ast.Attribute) and _attr_chain_root(subj) is not None)):
            tmp[0] += 1
            nm = f"_sv_subj{tmp[0]}"
            pre.append(ast.Assign(targets=[ast.Name(id=nm, ctx=ast.Store())], value=subj, type_comment=None))
            subj = ast.Name(id=nm, ctx=ast.Load())
        arms = []  # (test | None, body)
        for i, c in enumerate(m.cases):
            p = c.pattern
            if isinstance(p, ast.MatchAs) and p.pattern is None:
                body = list(c.body)
                if p.name is not None:
                    body = [ast.Assign(targets=[ast.Name(id=p.name, ctx=ast.Store())], value=copy.deepcopy(subj), type_comment=None)] + body
                if c.guard is not None:
                    if p.name is not None:
                        return None  # the guard may read the capture
                    arms.append((c.guard, body))
                    continue
                if i != len(m.cases) - 1:
                    return None
                arms.append((None, body))
                continue
            t = cond(p, subj)
            if t is None:
                return None
            if c.guard is not None:
                t = ast.BoolOp(op=ast.And(), values=[t, c.guard])
            arms.append((t, list(c.body)))
        if not arms:
            return None
        node = None
        for t, body in reversed(arms):
            if t is None:
                node = body
            else:
                node = [ast.If(test=t, body=body, orelse=node or [])]
        out = pre + (node or [])
        for x in out:
            ast.copy_location(x, m)
            ast.fix_missing_locations(x)
        return out

    for parent in ast.walk(tree):
        lists = [getattr(parent, f, None) for f in ("body", "orelse", "finalbody")]
        if isinstance(parent, ast.Match):
            lists = [c.body for c in parent.cases]
        for lst in lists:
            if not (isinstance(lst, list) and lst and isinstance(lst[0], ast.stmt)):
                continue
            i = 0
            while i < len(lst):
                if isinstance(lst[i], ast.Match):
                    rep = convert(lst[i])
                    if rep is not None:
                        lst[i:i + 1] = rep
                        n += 1
                        continue  # re-examine (nested matches inside the new ifs are reached by the walk)
                i += 1
    return n


def expand_dict_splats(tree: ast.Module) -> int:
    """`opts = {"a": x, "b": y} ... f(p, **opts) ... g(**opts)`  ->  `f(p, a=x, b=y) ... g(a=x, b=y)` when `opts` is a
    local bound once to a dict literal with string keys and plain-name / constant values, and is used for nothing but
    `**opts` (so neither the dict nor its values can change in between)."""
    n = 0
    for fn in ast.walk(tree):
        if not isinstance(fn, (ast.FunctionDef, ast.AsyncFunctionDef)):
            continue
        loads, stores, banned = _name_counts(fn)
        cands = {}
        for lst_owner in ast.walk(fn):
            for fld in ("body", "orelse", "finalbody"):
                lst = getattr(lst_owner, fld, None)
                if not (isinstance(lst, list) and lst and isinstance(lst[0], ast.stmt)):
                    continue
                for st in lst:
                    tg = st.targets[0] if isinstance(st, ast.Assign) and len(st.targets) == 1 else (st.target if isinstance(st, ast.AnnAssign) else None)
                    v = getattr(st, "value", None)
                    if isinstance(tg, ast.Name) and isinstance(v, ast.Dict) and v.keys and stores.get(tg.id, 0) == 1 and tg.id not in banned \
                            and all(isinstance(k, ast.Constant) and isinstance(k.value, str) and k.value.isidentifier() for k in v.keys) \
                            and all(isinstance(x, (ast.Name, ast.Constant)) for x in v.values):
                        cands[tg.id] = (lst, st, v)
        for name, (lst, st, d) in cands.items():
            uses = [x for x in ast.walk(fn) if isinstance(x, ast.Name) and x.id == name and isinstance(x.ctx, ast.Load)]
            splats = [(c, k) for c in ast.walk(fn) if isinstance(c, ast.Call) for k in c.keywords if k.arg is None and isinstance(k.value, ast.Name) and k.value.id == name]
            if not splats or len(splats) != len(uses):
                continue
            # the values are never re-bound (parameters or single-assignment locals)
            if any(isinstance(x, ast.Name) and stores.get(x.id, 0) > 1 for x in d.values):
                continue
            clash = False
            for c, k in splats:
                have = {kk.arg for kk in c.keywords if kk.arg is not None}
                if have & {kk.value for kk in d.keys}:
                    clash = True
            if clash:
                continue
            for c, k in splats:
                i = c.keywords.index(k)
                c.keywords[i:i + 1] = [ast.keyword(arg=kk.value, value=copy.deepcopy(vv)) for kk, vv in zip(d.keys, d.values)]
                ast.fix_missing_locations(c)
            lst.remove(st)
            if not lst:
                lst.append(ast.Pass())
            n += 1
    return n


def _split_conditional_receivers(tree: ast.Module) -> int:
    """`(A if c else B).append(x)`  ->  `if c: A.append(x) else: B.append(x)`  (expression statements only)"""
    n = 0
    for parent in ast.walk(tree):
        for fld in ("body", "orelse", "finalbody"):
            lst = getattr(parent, fld, None)
            if not (isinstance(lst, list) and lst and isinstance(lst[0], ast.stmt)):
                continue
            for i, st in enumerate(lst):
                c = st.value if isinstance(st, ast.Expr) else None
                if isinstance(c, ast.Call) and isinstance(c.func, ast.Attribute) and isinstance(c.func.value, ast.IfExp):
                    ife = c.func.value

                    def arm(recv, c=c):
                        cc = copy.deepcopy(c)
                        cc.func.value = copy.deepcopy(recv)
                        return ast.Expr(value=cc)

                    new = ast.If(test=ife.test, body=[arm(ife.body)], orelse=[arm(ife.orelse)])
                    ast.copy_location(new, st)
                    ast.fix_missing_locations(new)
                    lst[i] = new
                    n += 1
    return n


def _is_boolean_expr(e: ast.AST) -> bool:
    if isinstance(e, ast.Compare):
        return True
    if isinstance(e, ast.UnaryOp) and isinstance(e.op, ast.Not):
        return True
    if isinstance(e, ast.Constant) and isinstance(e.value, bool):
        return True
    if isinstance(e, ast.Call) and isinstance(e.func, ast.Name) and e.func.id in ("bool", "isinstance", "issubclass", "callable", "hasattr", "any", "all"):
        return True
    if isinstance(e, ast.BoolOp):
        return all(_is_boolean_expr(v) for v in e.values)
    return False


def _split_boolean_returns(tree: ast.Module) -> int:
    """`return A and B` (A boolean-valued)  ->  `if A: return B` / `return False`;   `return A or B`  ->  `if A: return True` /
    `return B`.  Gives the CFG the same tests whether a predicate is written as guard clauses or as one expression."""
    n = 0
    for parent in ast.walk(tree):
        for fld in ("body", "orelse", "finalbody"):
            lst = getattr(parent, fld, None)
            if not (isinstance(lst, list) and lst and isinstance(lst[0], ast.stmt)):
                continue
            i = 0
            while i < len(lst):
                st = lst[i]
                v = st.value if isinstance(st, ast.Return) else None
                if isinstance(v, ast.BoolOp) and len(v.values) >= 2 and all(_is_boolean_expr(x) for x in v.values[:-1]):
                    first, rest = v.values[0], v.values[1:]
                    rest_e = rest[0] if len(rest) == 1 else ast.BoolOp(op=v.op, values=rest)
                    if isinstance(v.op, ast.And):
                        new = [ast.If(test=first, body=[ast.Return(value=rest_e)], orelse=[]), ast.Return(value=ast.Constant(value=False))]
                    else:
                        new = [ast.If(test=first, body=[ast.Return(value=ast.Constant(value=True))], orelse=[]), ast.Return(value=rest_e)]
                    for x in new:
                        ast.copy_location(x, st)
                        ast.fix_missing_locations(x)
                    lst[i:i + 1] = new
                    n += 1
                    continue  # the inner return may split again
                i += 1
    return n


def _build_conditional_dicts(tree: ast.Module) -> int:
    """`return {**({'a': x} if c else {}), 'b': y}`  ->  `_sv_dN = {}; if c: _sv_dN['a'] = x; _sv_dN['b'] = y; return _sv_dN`
    (dict displays whose splats are `LITERAL if cond else {}`; keys are written in display order)."""
    n = 0
    cnt = [0]
    for parent in ast.walk(tree):
        for fld in ("body", "orelse", "finalbody"):
            lst = getattr(parent, fld, None)
            if not (isinstance(lst, list) and lst and isinstance(lst[0], ast.stmt)):
                continue
            i = 0
            while i < len(lst):
                st = lst[i]
                i += 1
                v = getattr(st, "value", None) if isinstance(st, (ast.Return, ast.Assign)) else None
                if not (isinstance(v, ast.Dict) and any(k is None for k in v.keys)):
                    continue
                okd = True
                for k, val in zip(v.keys, v.values):
                    if k is None and not (isinstance(val, ast.IfExp) and isinstance(val.body, ast.Dict) and all(kk is not None for kk in val.body.keys)
                                          and isinstance(val.orelse, ast.Dict) and not val.orelse.keys):
                        okd = False
                if not okd:
                    continue
                cnt[0] += 1
                tmp = f"_sv_d{cnt[0]}"
                pre: List[ast.stmt] = [ast.Assign(targets=[ast.Name(id=tmp, ctx=ast.Store())], value=ast.Dict(keys=[], values=[]), type_comment=None)]

                def put(k_, v_):
                    return ast.Assign(targets=[ast.Subscript(value=ast.Name(id=tmp, ctx=ast.Load()), slice=k_, ctx=ast.Store())], value=v_, type_comment=None)

                for k, val in zip(v.keys, v.values):
                    if k is None:
                        pre.append(ast.If(test=val.test, body=[put(kk, vv) for kk, vv in zip(val.body.keys, val.body.values)], orelse=[]))
                    else:
                        pre.append(put(k, val))
                st.value = ast.Name(id=tmp, ctx=ast.Load())
                for x in pre:
                    ast.copy_location(x, st)
                    ast.fix_missing_locations(x)
                ast.fix_missing_locations(st)
                lst[i - 1:i - 1] = pre
                i += len(pre)
                n += 1
    return n


def _unroll_table_comprehensions(tree: ast.Module) -> int:
    """`rows = ((k1, v1, c1), (k2, v2, c2)); return {k: v for k, v, keep in rows if keep}`  ->
    `_sv_tN = {}; if c1: _sv_tN[k1] = v1; if c2: _sv_tN[k2] = v2; return _sv_tN`   (dict and list comprehensions over a
    literal table of tuples - given in place or through a local bound once and used only there - with a tuple target)."""
    n = 0
    cnt = [0]
    for fn in ast.walk(tree):
        if not isinstance(fn, (ast.FunctionDef, ast.AsyncFunctionDef)):
            continue
        loads, stores, banned = _name_counts(fn)
        tables = {}
        for x in _walk_own(fn):
            tg = x.targets[0] if isinstance(x, ast.Assign) and len(x.targets) == 1 else (x.target if isinstance(x, ast.AnnAssign) else None)
            v = getattr(x, "value", None)
            if isinstance(tg, ast.Name) and isinstance(v, (ast.Tuple, ast.List)) and v.elts and all(isinstance(r, ast.Tuple) for r in v.elts) and stores.get(tg.id, 0) == 1 and loads.get(tg.id, 0) == 1 and tg.id not in banned:
                tables[tg.id] = (x, v)
        lists = [fn.body]
        for x in _walk_own(fn):
            for fld in ("body", "orelse", "finalbody"):
                sub = getattr(x, fld, None)
                if isinstance(sub, list) and sub and isinstance(sub[0], ast.stmt) and not isinstance(x, (ast.FunctionDef, ast.AsyncFunctionDef, ast.ClassDef)):
                    lists.append(sub)
            if isinstance(x, ast.Try):
                lists += [h.body for h in x.handlers]
        for lst in lists:
            i = 0
            while i < len(lst):
                st = lst[i]
                i += 1
                v = getattr(st, "value", None) if isinstance(st, (ast.Return, ast.Assign, ast.AnnAssign)) else None
                if not (isinstance(v, (ast.DictComp, ast.ListComp)) and len(v.generators) == 1):
                    continue
                gen = v.generators[0]
                if gen.is_async or not (isinstance(gen.target, ast.Tuple) and all(isinstance(t, ast.Name) for t in gen.target.elts)):
                    continue
                table, drop = None, None
                if isinstance(gen.iter, (ast.Tuple, ast.List)) and gen.iter.elts and all(isinstance(r, ast.Tuple) for r in gen.iter.elts):
                    table = gen.iter
                elif isinstance(gen.iter, ast.Name) and gen.iter.id in tables:
                    drop, table = tables[gen.iter.id]
                if table is None or len(table.elts) > 32 or any(len(r.elts) != len(gen.target.elts) or any(isinstance(e, ast.Starred) for e in r.elts) for r in table.elts):
                    continue
                names = [t.id for t in gen.target.elts]
                cnt[0] += 1
                tmp = f"_sv_t{cnt[0]}"
                is_dict = isinstance(v, ast.DictComp)
                pre: List[ast.stmt] = [ast.Assign(targets=[ast.Name(id=tmp, ctx=ast.Store())], value=ast.Dict(keys=[], values=[]) if is_dict else ast.List(elts=[], ctx=ast.Load()), type_comment=None)]
                for row in table.elts:
                    mp = dict(zip(names, row.elts))

                    def sub(e):
                        return _SubstNames(mp).visit(copy.deepcopy(e))

                    if is_dict:
                        act: ast.stmt = ast.Assign(targets=[ast.Subscript(value=ast.Name(id=tmp, ctx=ast.Load()), slice=sub(v.key), ctx=ast.Store())], value=sub(v.value), type_comment=None)
                    else:
                        act = ast.Expr(value=ast.Call(func=ast.Attribute(value=ast.Name(id=tmp, ctx=ast.Load()), attr="append", ctx=ast.Load()), args=[sub(v.elt)], keywords=[]))
                    body: List[ast.stmt] = [act]
                    for cond in reversed(gen.ifs):
                        body = [ast.If(test=sub(cond), body=body, orelse=[])]
                    pre += body
                st.value = ast.Name(id=tmp, ctx=ast.Load())
                for x in pre:
                    ast.copy_location(x, st)
                    ast.fix_missing_locations(x)
                ast.fix_missing_locations(st)
                lst[i - 1:i - 1] = pre
                i += len(pre)
                if drop is not None:
                    for l2 in lists:
                        if drop in l2:
                            l2.remove(drop)
                            if not l2:
                                l2.append(ast.Pass())
                            if l2 is lst:
                                i -= 1
                n += 1
    return n


_BASE_CONSTS = None


def inline_new_constants(tree: ast.Module, modname: str) -> int:
    """A module-level name bound once to a str / number literal that the reference tree does not have (`_MD5_DOS2UNIX =
    "md5-dos2unix"` introduced to replace a magic string) is folded back into the functions that read it."""
    global _BASE_CONSTS
    if _BASE_CONSTS is None:
        import json
        import os

        try:
            with open(os.path.join(os.path.dirname(os.path.abspath(__file__)), "baseline_consts.json")) as fh:
                _BASE_CONSTS = json.load(fh)
        except OSError:
            _BASE_CONSTS = {}
    known = _BASE_CONSTS.get(modname)
    if known is None:
        return 0
    known = set(known)
    cands, counts = {}, {}
    for st in tree.body:
        tg = st.targets[0] if isinstance(st, ast.Assign) and len(st.targets) == 1 else (st.target if isinstance(st, ast.AnnAssign) else None)
        v = getattr(st, "value", None)
        if isinstance(tg, ast.Name):
            counts[tg.id] = counts.get(tg.id, 0) + 1
            if isinstance(v, ast.Constant) and isinstance(v.value, (str, int, float)) and not isinstance(v.value, bool) and tg.id not in known:
                cands[tg.id] = v
            # ... or to a tuple of such literals (immutable, so every reader sees the same value)
            if isinstance(v, ast.Tuple) and v.elts and all(isinstance(e_, ast.Constant) and isinstance(e_.value, (str, int, float)) and not isinstance(e_.value, bool) for e_ in v.elts) and tg.id not in known:
                cands[tg.id] = v
    for x in ast.walk(tree):
        if isinstance(x, ast.Global):
            for nm in x.names:
                counts[nm] = counts.get(nm, 0) + 2
        if isinstance(x, ast.Name) and not isinstance(x.ctx, ast.Load) and x.id in cands:
            counts[x.id] = counts.get(x.id, 0) + 1  # counted once above already for the module-level binding
    cands = {k: v for k, v in cands.items() if counts.get(k, 0) <= 2}
    if not cands:
        return 0
    n = 0
    for fn in ast.walk(tree):
        if not isinstance(fn, (ast.FunctionDef, ast.AsyncFunctionDef)):
            continue
        local = {a.arg for a in ast.walk(fn.args) if isinstance(a, ast.arg)} | {y.id for y in ast.walk(fn) if isinstance(y, ast.Name) and not isinstance(y.ctx, ast.Load)}

        class R(ast.NodeTransformer):
            def visit_Name(self, node):
                nonlocal n
                if isinstance(node.ctx, ast.Load) and node.id in cands and node.id not in local:
                    n += 1
                    return ast.copy_location(copy.deepcopy(cands[node.id]), node)
                return node

        R().visit(fn)
    return n


def _split_const_membership(tree: ast.Module) -> int:
    """`'directory' in (a.get('type'), b.get('type'))`  ->  `a.get('type') == 'directory' or b.get('type') == 'directory'`
    (a constant looked up in a short literal tuple of expressions; `not in` gives the `!=` / `and` form)."""
    n = 0

    class T(ast.NodeTransformer):
        def visit_Compare(self, c):
            nonlocal n
            self.generic_visit(c)
            if len(c.ops) == 1 and isinstance(c.ops[0], (ast.In, ast.NotIn)) and isinstance(c.left, ast.Constant) and isinstance(c.left.value, (str, int)) and not isinstance(c.left.value, bool) \
                    and isinstance(c.comparators[0], (ast.Tuple, ast.List)) and 2 <= len(c.comparators[0].elts) <= 4 \
                    and not any(isinstance(e, (ast.Constant, ast.Starred)) for e in c.comparators[0].elts):
                neg = isinstance(c.ops[0], ast.NotIn)
                parts = [ast.Compare(left=e, ops=[ast.NotEq() if neg else ast.Eq()], comparators=[copy.deepcopy(c.left)]) for e in c.comparators[0].elts]
                n += 1
                return ast.copy_location(ast.BoolOp(op=ast.And() if neg else ast.Or(), values=parts), c)
            return c

    T().visit(tree)
    ast.fix_missing_locations(tree)
    return n


def desugar(tree: ast.Module) -> int:
    total = expand_dict_splats(tree)
    total += _split_const_membership(tree)
    total += _unroll_table_comprehensions(tree)
    total += _build_conditional_dicts(tree)
    for _ in range(4):
        k = _split_boolean_returns(tree)
        total += k
        if not k:
            break
    total += _split_conditional_receivers(tree)
    for _ in range(3):
        k = _match_to_if(tree)
        total += k
        if not k:
            break
    total += unroll_any_all(tree)
    for fn in ast.walk(tree):
        if isinstance(fn, (ast.FunctionDef, ast.AsyncFunctionDef)):
            total += _hoist_walrus_in_list(fn.body)
            total += _suppress_to_try(fn.body)
    return total


# --------------------------------------------------------------------------
# dispatch tables:  {K1: f1, K2: f2}[k](args)   ->   if k == K1: f1(args) elif k == K2: f2(args) else: raise KeyError(k)
# --------------------------------------------------------------------------

def _dispatch_tables(tree: ast.Module, fn: ast.AST) -> Dict[str, ast.Dict]:
    """name -> dict literal whose values are all plain function names (module level or local, single definition)."""
    out: Dict[str, ast.Dict] = {}
    counts: Dict[str, int] = {}
    for scope in (tree.body, [x for x in _walk_own(fn)]):
        for st in scope:
            if isinstance(st, (ast.Assign, ast.AnnAssign)):
                tg = st.targets[0] if isinstance(st, ast.Assign) and len(st.targets) == 1 else getattr(st, "target", None)
                v = st.value
                if isinstance(tg, ast.Name):
                    counts[tg.id] = counts.get(tg.id, 0) + 1
                    if isinstance(v, ast.Dict) and v.keys and all(k is not None for k in v.keys) and all(isinstance(x, ast.Name) for x in v.values):
                        out[tg.id] = v
    return {k: v for k, v in out.items() if counts.get(k) == 1}


def _table_of(e: ast.AST, tables) -> Optional[Tuple[ast.Dict, ast.AST, bool]]:
    """(dict literal, key expression, strict?) when e is  TABLE[key] / TABLE.get(key)  over a dispatch table."""
    if isinstance(e, ast.Subscript):
        d = e.value if isinstance(e.value, ast.Dict) else (tables.get(e.value.id) if isinstance(e.value, ast.Name) else None)
        if isinstance(d, ast.Dict) and d.keys and all(k is not None for k in d.keys) and all(isinstance(x, ast.Name) for x in d.values):
            return d, e.slice, True
    if isinstance(e, ast.Call) and isinstance(e.func, ast.Attribute) and e.func.attr == "get" and len(e.args) == 1 and not e.keywords:
        d = e.func.value if isinstance(e.func.value, ast.Dict) else (tables.get(e.func.value.id) if isinstance(e.func.value, ast.Name) else None)
        if isinstance(d, ast.Dict) and d.keys and all(k is not None for k in d.keys) and all(isinstance(x, ast.Name) for x in d.values):
            return d, e.args[0], False
    return None


def _expand_dispatch_in_list(stmts: List[ast.stmt], tables, handlers: Dict[str, Tuple[ast.Dict, ast.AST, bool]]) -> int:
    n = 0
    i = 0
    while i < len(stmts):
        s = stmts[i]
        if isinstance(s, (ast.FunctionDef, ast.AsyncFunctionDef, ast.ClassDef)):
            i += 1
            continue
        # handler = TABLE[key]   (remember, and drop the assignment when it has a strict table)
        if isinstance(s, ast.Assign) and len(s.targets) == 1 and isinstance(s.targets[0], ast.Name):
            t = _table_of(s.value, tables)
            if t is not None:
                handlers[s.targets[0].id] = t
        for fld in ("body", "orelse", "finalbody"):
            sub = getattr(s, fld, None)
            if isinstance(sub, list) and sub and isinstance(sub[0], ast.stmt):
                n += _expand_dispatch_in_list(sub, tables, handlers)
        if isinstance(s, ast.Try):
            for h in s.handlers:
                n += _expand_dispatch_in_list(h.body, tables, handlers)
        # find one dispatching call in the statement's own header expressions
        call = None
        for e in _header_exprs(s):
            for x in ast.walk(e):
                if isinstance(x, ast.Call):
                    t = _table_of(x.func, tables) or (handlers.get(x.func.id) if isinstance(x.func, ast.Name) else None)
                    if t is not None:
                        call, tab = x, t
                        break
            if call is not None:
                break
        if call is None or not isinstance(s, (ast.Expr, ast.Assign, ast.Return, ast.If, ast.AugAssign, ast.AnnAssign)):
            i += 1
            continue
        d, key, strict = tab
        # {True: f, False: g}[bool(c)]  ->  if c: f(...) else: g(...)
        branches = []
        for k, v in zip(d.keys, d.values):
            branches.append((k, v))

        def with_handler(h: ast.Name) -> ast.stmt:
            new = copy.deepcopy(s)
            for e in ast.walk(new):
                if isinstance(e, ast.Call) and ast.dump(e) == ast.dump(call):
                    e.func = ast.Name(id=h.id, ctx=ast.Load())
                    break
            return new

        if isinstance(s, ast.If):
            # evaluate the dispatched call into a temporary first
            tmp = "_sv_disp"
            asg = ast.Assign(targets=[ast.Name(id=tmp, ctx=ast.Store())], value=copy.deepcopy(call), type_comment=None)
            ast.copy_location(asg, s)

            class R(ast.NodeTransformer):
                done = False

                def visit_Call(self, c):
                    if not self.done and ast.dump(c) == ast.dump(call):
                        self.done = True
                        return ast.copy_location(ast.Name(id=tmp, ctx=ast.Load()), c)
                    return self.generic_visit(c)

            s.test = R().visit(s.test)
            ast.fix_missing_locations(asg)
            stmts.insert(i, asg)
            continue  # the inserted assignment is expanded on the next iteration
        chain: Optional[ast.stmt] = None
        is_bool = all(isinstance(k, ast.Constant) and isinstance(k.value, bool) for k, _v in branches) and len(branches) == 2
        if is_bool:
            kexpr = key.args[0] if isinstance(key, ast.Call) and isinstance(key.func, ast.Name) and key.func.id == "bool" and len(key.args) == 1 else key
            tv = next(v for k, v in branches if k.value is True)
            fv = next(v for k, v in branches if k.value is False)
            chain = ast.If(test=copy.deepcopy(kexpr), body=[with_handler(tv)], orelse=[with_handler(fv)])
        else:
            tail: List[ast.stmt] = [ast.Raise(exc=ast.Call(func=ast.Name(id="KeyError", ctx=ast.Load()), args=[copy.deepcopy(key)], keywords=[]), cause=None)] if strict else [ast.Pass()]
            for k, v in reversed(branches):
                chain = ast.If(test=ast.Compare(left=copy.deepcopy(key), ops=[ast.Eq()], comparators=[copy.deepcopy(k)]), body=[with_handler(v)], orelse=tail)
                tail = [chain]
        ast.copy_location(chain, s)
        ast.fix_missing_locations(chain)
        stmts[i] = chain
        n += 1
        i += 1
    return n


def expand_dispatch(tree: ast.Module) -> int:
    total = 0
    for fn in ast.walk(tree):
        if isinstance(fn, (ast.FunctionDef, ast.AsyncFunctionDef)):
            tables = _dispatch_tables(tree, fn)
            total += _expand_dispatch_in_list(fn.body, tables, {})
    return total


# --------------------------------------------------------------------------
# copies of never-rebound parameters:  x = param  ->  use param
# --------------------------------------------------------------------------

def propagate_param_copies(tree: ast.Module) -> int:
    total = 0
    for fn in ast.walk(tree):
        if not isinstance(fn, (ast.FunctionDef, ast.AsyncFunctionDef)):
            continue
        params = {a.arg for a in fn.args.posonlyargs + fn.args.args + fn.args.kwonlyargs}
        for _ in range(8):
            stores: Dict[str, int] = {}
            for x in ast.walk(fn):
                if isinstance(x, ast.Name) and not isinstance(x.ctx, ast.Load):
                    stores[x.id] = stores.get(x.id, 0) + 1
                elif isinstance(x, (ast.Global, ast.Nonlocal)):
                    for nm in x.names:
                        stores[nm] = stores.get(nm, 0) + 2
                elif x is not fn and isinstance(x, (ast.FunctionDef, ast.AsyncFunctionDef, ast.ClassDef)):
                    stores[x.name] = stores.get(x.name, 0) + 1  # `def name` / `class name` bind the name as well
                elif isinstance(x, ast.ExceptHandler) and x.name:
                    stores[x.name] = stores.get(x.name, 0) + 1
                elif isinstance(x, (ast.Import, ast.ImportFrom)):
                    for al in x.names:
                        nm = (al.asname or al.name).split(".")[0]
                        stores[nm] = stores.get(nm, 0) + 1
            found = None
            # locals bound exactly once by a plain top-level assignment: as stable as a parameter from there on
            top_of: Dict[int, int] = {}
            for i_, top in enumerate(fn.body):
                for x in ast.walk(top):
                    top_of[id(x)] = i_
            stable_at: Dict[str, int] = {}
            for i_, top in enumerate(fn.body):
                if isinstance(top, ast.Assign) and len(top.targets) == 1 and isinstance(top.targets[0], ast.Name) and stores.get(top.targets[0].id, 0) == 1 and top.targets[0].id not in params:
                    stable_at[top.targets[0].id] = i_
            nested_names = {x.id for d in ast.walk(fn) if d is not fn and isinstance(d, (ast.FunctionDef, ast.AsyncFunctionDef, ast.Lambda)) for x in ast.walk(d) if isinstance(x, ast.Name)}

            def _src_ok(st):
                p_, a_ = st.value.id, st.targets[0].id
                if p_ in params:
                    return stores.get(p_, 0) == 0
                if p_ not in stable_at or stable_at[p_] >= top_of.get(id(st), -1) or a_ in nested_names or p_ in nested_names:
                    return False
                # every read of the alias follows its binding in the text (no use in an earlier part of a loop body)
                seen_store = False
                for x in _ordered_names(fn):
                    if x.id == a_:
                        if not isinstance(x.ctx, ast.Load):
                            seen_store = True
                        elif not seen_store:
                            return False
                return True

            for parent_ in ast.walk(fn):
                for fld in ("body", "orelse", "finalbody"):
                    lst = getattr(parent_, fld, None)
                    if not (isinstance(lst, list) and lst and isinstance(lst[0], ast.stmt)):
                        continue
                    for st in lst:
                        if (isinstance(st, ast.Assign) and len(st.targets) == 1 and isinstance(st.targets[0], ast.Name) and isinstance(st.value, ast.Name)
                                and stores.get(st.targets[0].id, 0) == 1 and st.targets[0].id not in params and st.value.id != st.targets[0].id and _src_ok(st)):
                            found = (lst, st)
                            break
                    if found:
                        break
                if found:
                    break
            if not found:
                break
            lst, st = found
            a, p = st.targets[0].id, st.value.id
            lst.remove(st)
            if not lst:
                lst.append(ast.Pass())
            for x in ast.walk(fn):
                if isinstance(x, ast.Name) and x.id == a:
                    x.id = p
            total += 1
    return total



def unroll_any_all(tree: ast.Module) -> int:
    """any(C(x) for x in (a, b))  ->  C(a) or C(b)      all(...)  ->  ... and ...   (literal sequences only)"""
    n = 0

    class T(ast.NodeTransformer):
        def visit_Call(self, c):
            nonlocal n
            self.generic_visit(c)
            if isinstance(c.func, ast.Name) and c.func.id in ("any", "all") and len(c.args) == 1 and not c.keywords and isinstance(c.args[0], (ast.GeneratorExp, ast.ListComp)):
                comp = c.args[0]
                if len(comp.generators) == 1 and not comp.generators[0].ifs and isinstance(comp.generators[0].target, ast.Name) and isinstance(comp.generators[0].iter, (ast.Tuple, ast.List)) \
                        and 1 <= len(comp.generators[0].iter.elts) <= 6 and not any(isinstance(e, ast.Starred) for e in comp.generators[0].iter.elts):
                    name = comp.generators[0].target.id
                    vals = [_SubstNames({name: e}).visit(copy.deepcopy(comp.elt)) for e in comp.generators[0].iter.elts]
                    n += 1
                    new = vals[0] if len(vals) == 1 else ast.BoolOp(op=ast.Or() if c.func.id == "any" else ast.And(), values=vals)
                    return ast.copy_location(new, c)
            return c

    for fn in ast.walk(tree):
        if isinstance(fn, (ast.FunctionDef, ast.AsyncFunctionDef)):
            T().visit(fn)
            ast.fix_missing_locations(fn)
    return n


def apply_local_partials(tree: ast.Module) -> int:
    """p = partial(F, a, k=v) ... p(x, y)   ->   F(a, x, y, k=v)   (p defined once, only ever called)"""
    total = 0
    for fn in ast.walk(tree):
        if not isinstance(fn, (ast.FunctionDef, ast.AsyncFunctionDef)):
            continue
        loads, stores, banned = _name_counts(fn)
        for st in list(_walk_own(fn)):
            if not (isinstance(st, ast.Assign) and len(st.targets) == 1 and isinstance(st.targets[0], ast.Name) and isinstance(st.value, ast.Call)):
                continue
            c = st.value
            is_partial = (isinstance(c.func, ast.Name) and c.func.id == "partial") or (isinstance(c.func, ast.Attribute) and c.func.attr == "partial")
            if not is_partial or not c.args or not isinstance(c.args[0], (ast.Name, ast.Attribute)) or any(isinstance(a, ast.Starred) for a in c.args) or any(k.arg is None for k in c.keywords):
                continue
            p = st.targets[0].id
            if stores.get(p, 0) != 1:
                continue
            uses = [x for x in ast.walk(fn) if isinstance(x, ast.Name) and x.id == p and isinstance(x.ctx, ast.Load)]
            calls = [x for x in ast.walk(fn) if isinstance(x, ast.Call) and isinstance(x.func, ast.Name) and x.func.id == p]
            if not calls or len(calls) != len(uses):
                continue
            for call in calls:
                call.func = copy.deepcopy(c.args[0])
                call.args = [copy.deepcopy(a) for a in c.args[1:]] + call.args
                given = {k.arg for k in call.keywords}
                call.keywords = call.keywords + [copy.deepcopy(k) for k in c.keywords if k.arg not in given]
            # drop the definition
            for parent_ in ast.walk(fn):
                for fld in ("body", "orelse", "finalbody"):
                    lst = getattr(parent_, fld, None)
                    if isinstance(lst, list) and st in lst:
                        lst.remove(st)
                        if not lst:
                            lst.append(ast.Pass())
            total += 1
    return total


# --------------------------------------------------------------------------
# canonical call form: keyword arguments for *required* positional parameters become positional
# --------------------------------------------------------------------------


def collect_required_signatures(tree: ast.Module, out: Dict[str, List[Tuple[List[str], int]]]) -> None:
    """out[name] += (positional parameter names without self/cls, number of required ones) for every module-level
    function, method and record class / __init__ of this module."""

    def add_fn(name: str, f, drop_first: bool) -> None:
        a = f.args
        pp = [x.arg for x in a.posonlyargs + a.args]
        if drop_first and pp:
            pp = pp[1:]
        nreq = len(a.posonlyargs + a.args) - len(a.defaults) - (1 if drop_first and (a.posonlyargs + a.args) else 0)
        out.setdefault(name, []).append((pp, max(nreq, 0)))

    recs = record_classes(tree)
    for n in tree.body:
        if isinstance(n, (ast.FunctionDef, ast.AsyncFunctionDef)):
            add_fn(n.name, n, False)
        elif isinstance(n, ast.ClassDef):
            init = None
            for m in n.body:
                if isinstance(m, (ast.FunctionDef, ast.AsyncFunctionDef)):
                    static = any(isinstance(d, ast.Name) and d.id == "staticmethod" for d in m.decorator_list)
                    add_fn(m.name, m, not static)
                    if m.name == "__init__":
                        init = m
            if init is not None:
                add_fn(n.name, init, True)
            elif n.name in recs:
                fields, defaults, _ = recs[n.name]
                nreq = 0
                for f in fields:
                    if f in defaults:
                        break
                    nreq += 1
                out.setdefault(n.name, []).append((list(fields), nreq))


def canonicalise_required_kwargs(tree: ast.AST, sigs: Dict[str, List[Tuple[List[str], int]]]) -> int:
    """`f(a, b=x, c=y)` -> `f(a, x, y)` when b, c are the next *required* positional parameters of every
    in-repo callable of that name that accepts all the keywords used (purely syntactic; evaluation order is
    irrelevant to the analyses).  Optional parameters keep their keyword form."""
    n_conv = 0
    for c in ast.walk(tree):
        if not isinstance(c, ast.Call) or not c.keywords:
            continue
        name = c.func.id if isinstance(c.func, ast.Name) else c.func.attr if isinstance(c.func, ast.Attribute) else None
        if name is None or name not in sigs:
            continue
        if any(isinstance(a, ast.Starred) for a in c.args):
            continue
        kwnames = [k.arg for k in c.keywords if k.arg is not None]
        cands = [(pp, nreq) for pp, nreq in sigs[name] if all(k in pp for k in kwnames) and len(c.args) <= len(pp)]
        if not cands:
            continue
        while True:
            i = len(c.args)
            nxt = {pp[i] if i < nreq else None for pp, nreq in cands}
            if len(nxt) != 1:
                break
            p = next(iter(nxt))
            if p is None:
                break
            kw = next((k for k in c.keywords if k.arg == p), None)
            if kw is None:
                break
            c.args.append(kw.value)
            c.keywords.remove(kw)
            n_conv += 1
    return n_conv


# --------------------------------------------------------------------------
# attribute copies:  x = b.f.g  (x bound once, b not rebound while x is live)  ->  uses of x become b.f.g
# --------------------------------------------------------------------------


def _attr_chain_root(e: ast.AST) -> Optional[str]:
    while isinstance(e, ast.Attribute):
        e = e.value
    return e.id if isinstance(e, ast.Name) else None


def propagate_attr_copies(tree: ast.Module) -> int:
    """`old_entry = change.old ... old_entry.meta`  ->  `change.old.meta` (a sub-expression hoisted into a local is put
    back).  Only for locals bound exactly once to a pure attribute chain, all of whose reads follow the binding inside
    the same innermost loop body, and only when neither the root variable nor any attribute on the chain is assigned
    anywhere else in the function."""
    total = 0
    for fn in ast.walk(tree):
        if not isinstance(fn, (ast.FunctionDef, ast.AsyncFunctionDef)):
            continue
        for _ in range(12):
            loads, stores, banned = _name_counts(fn)
            order = _ordered_names(fn)
            pos = {id(n): i for i, n in enumerate(order)}
            attr_stores = {norm_attr(x) for x in ast.walk(fn) if isinstance(x, ast.Attribute) and not isinstance(x.ctx, ast.Load)}
            parent_loop: Dict[int, Optional[ast.AST]] = {}

            def mark(node, loop):
                for ch in ast.iter_child_nodes(node):
                    if isinstance(ch, (ast.FunctionDef, ast.AsyncFunctionDef, ast.Lambda, ast.ClassDef)):
                        continue
                    parent_loop[id(ch)] = loop
                    mark(ch, ch if isinstance(ch, (ast.For, ast.While)) else loop)

            mark(fn, None)
            found = None
            lists = [fn.body]
            for x in _walk_own(fn):
                for fld in ("body", "orelse", "finalbody"):
                    sub = getattr(x, fld, None)
                    if isinstance(sub, list) and sub and isinstance(sub[0], ast.stmt) and not isinstance(x, (ast.FunctionDef, ast.AsyncFunctionDef, ast.ClassDef)):
                        lists.append(sub)
                if isinstance(x, ast.Try):
                    lists += [h.body for h in x.handlers]
            for lst in lists:
                for st in lst:
                    if not (isinstance(st, ast.Assign) and len(st.targets) == 1 and isinstance(st.targets[0], ast.Name) and isinstance(st.value, ast.Attribute)):
                        continue
                    x, chain = st.targets[0], st.value
                    root = _attr_chain_root(chain)
                    if root is None or root == x.id or x.id in banned or stores.get(x.id, 0) != 1 or root in ("self", "cls") and False:
                        continue
                    # the root is a parameter / a single binding (loop target counted as one store) - or, for a
                    # function-level alias, is not re-bound between the alias and its last use
                    if stores.get(root, 0) > 1:
                        uses_ = [n for n in order if n.id == x.id and isinstance(n.ctx, ast.Load)]
                        if parent_loop.get(id(st)) is not None or not uses_:
                            continue
                        last_ = max(pos[id(u)] for u in uses_)
                        if any(n.id == root and not isinstance(n.ctx, ast.Load) and pos[id(x)] < pos[id(n)] <= last_ for n in order):
                            continue
                    if root in banned and not any(isinstance(a, ast.arg) and a.arg == root for a in ast.walk(fn.args)):
                        continue
                    # no attribute on the chain (or below it) is assigned in this function
                    ctxt = norm_attr(chain)
                    if any(a == ctxt or a.startswith(ctxt + ".") or ctxt.startswith(a + ".") for a in attr_stores):
                        continue
                    uses = [n for n in order if n.id == x.id and isinstance(n.ctx, ast.Load)]
                    if not uses or any(pos[id(u)] < pos[id(x)] for u in uses):
                        continue
                    loop = parent_loop.get(id(st))
                    if loop is None:
                        # function-level classifications (`is_symlink = meta.is_link`) are what rules anchor on: kept.
                        # A bound method hoisted for speed (`add = tree.add ... add(x)`), used for nothing but calls, is put back.
                        call_funcs = {id(c.func) for c in ast.walk(fn) if isinstance(c, ast.Call)}
                        if not all(id(u) in call_funcs for u in uses):
                            continue
                    if any(not _inside(parent_loop, u, loop) for u in uses):
                        continue
                    # a method called on the root object (or on something along the chain) may change the attribute
                    pure = ("get", "items", "keys", "values", "startswith", "endswith", "join", "split", "copy", "isdir", "to_dict", "as_dict")
                    call_funcs_ = {id(c.func) for c in ast.walk(fn) if isinstance(c, ast.Call)}
                    only_called = all(id(u) in call_funcs_ for u in uses)  # a bound method: other method calls do not replace it
                    if not only_called and any(isinstance(c, ast.Call) and isinstance(c.func, ast.Attribute) and _attr_chain_root(c.func) == root and c.func.attr not in pure
                           and (norm_attr(c.func.value) == root or ctxt.startswith(norm_attr(c.func.value) + ".") or norm_attr(c.func.value) == ctxt) for c in ast.walk(fn)):
                        continue
                    found = (lst, st, x.id, chain)
                    break
                if found:
                    break
            if not found:
                break
            lst, st, name, chain = found
            lst.remove(st)
            if not lst:
                lst.append(ast.Pass())

            class R(ast.NodeTransformer):
                def visit_Name(self, n):
                    if n.id == name and isinstance(n.ctx, ast.Load):
                        return ast.copy_location(copy.deepcopy(chain), n)
                    return n

            R().visit(fn)
            ast.fix_missing_locations(fn)
            total += 1
    return total


def _pure_hoistable(e: ast.AST) -> bool:
    if isinstance(e, (ast.Name, ast.Constant)):
        return True
    if isinstance(e, ast.Attribute):
        return _pure_hoistable(e.value)
    if isinstance(e, ast.BinOp):
        return _pure_hoistable(e.left) and _pure_hoistable(e.right)
    if isinstance(e, ast.UnaryOp):
        return _pure_hoistable(e.operand)
    if isinstance(e, ast.Call):
        return isinstance(e.func, ast.Name) and e.func.id == "len" and len(e.args) == 1 and not e.keywords and _pure_hoistable(e.args[0])
    return False


_BASE_LOCALS = None


def propagate_pure_hoists(tree: ast.Module, modname: str = "") -> int:
    """`sep = fs.sep; n = len(path) + 1; for ...: root[n:].split(sep)`  ->  `root[len(path) + 1:].split(fs.sep)`:
    a loop invariant hoisted into a function-level local is put back, provided the local is bound once by a top-level
    statement to a pure expression (names, attributes, arithmetic, len()) over names that are never re-bound after it,
    no attribute it reads is assigned in the function, it is read at least once inside a loop, and it is never used as
    a bare truth value (classifications such as `is_symlink = meta.is_link` are what rules anchor on and stay)."""
    total = 0
    # locals the reference tree does not have in this function: a *new* hoist of a pure attribute chain (`trie =
    # self._trie`, `root_key: Key = root_entry.key`) is put back even when it is not read inside a loop
    global _BASE_LOCALS
    if _BASE_LOCALS is None:
        import json
        import os

        try:
            with open(os.path.join(os.path.dirname(os.path.abspath(__file__)), "baseline_locals.json")) as fh:
                _BASE_LOCALS = json.load(fh)
        except OSError:
            _BASE_LOCALS = {}
    base_mod = _BASE_LOCALS.get(modname) if modname else None
    qual_of: Dict[int, str] = {}

    def _rec(node, prefix):
        for ch in ast.iter_child_nodes(node):
            if isinstance(ch, ast.ClassDef):
                _rec(ch, prefix + ch.name + ".")
            elif isinstance(ch, (ast.FunctionDef, ast.AsyncFunctionDef)):
                qual_of[id(ch)] = prefix + ch.name
                _rec(ch, prefix + ch.name + ".<locals>.")
            else:
                _rec(ch, prefix)

    _rec(tree, "")
    for fn in ast.walk(tree):
        if not isinstance(fn, (ast.FunctionDef, ast.AsyncFunctionDef)):
            continue
        params = {a.arg for a in fn.args.posonlyargs + fn.args.args + fn.args.kwonlyargs}
        base_names = set(base_mod.get(qual_of.get(id(fn), ""), ())) if base_mod is not None and qual_of.get(id(fn), "") in base_mod else None
        for _ in range(12):
            loads, stores, banned = _name_counts(fn)
            order = _ordered_names(fn)
            pos = {id(n): i for i, n in enumerate(order)}
            attr_stores = {norm_attr(x) for x in ast.walk(fn) if isinstance(x, ast.Attribute) and not isinstance(x.ctx, ast.Load)}
            truthy = set()
            for x in ast.walk(fn):
                tests = []
                if isinstance(x, (ast.If, ast.While, ast.IfExp, ast.Assert)):
                    tests.append(x.test)
                if isinstance(x, ast.BoolOp):
                    tests += x.values
                if isinstance(x, ast.UnaryOp) and isinstance(x.op, ast.Not):
                    tests.append(x.operand)
                if isinstance(x, ast.comprehension):
                    tests += x.ifs
                for t in tests:
                    if isinstance(t, ast.Name):
                        truthy.add(t.id)
            in_loop = set()
            for lp in ast.walk(fn):
                if isinstance(lp, (ast.For, ast.While, ast.AsyncFor, ast.ListComp, ast.SetComp, ast.DictComp, ast.GeneratorExp)):
                    for y in ast.walk(lp):
                        if isinstance(y, ast.Name) and isinstance(y.ctx, ast.Load):
                            in_loop.add(id(y))
            nested = {y.id for d in ast.walk(fn) if d is not fn and isinstance(d, (ast.FunctionDef, ast.AsyncFunctionDef, ast.Lambda)) for y in ast.walk(d) if isinstance(y, ast.Name)}
            found = None
            for i_, st in enumerate(fn.body):
                if isinstance(st, ast.AnnAssign) and isinstance(st.target, ast.Name) and st.value is not None and base_names is not None and st.target.id not in base_names:
                    x, v = st.target, st.value
                elif isinstance(st, ast.Assign) and len(st.targets) == 1 and isinstance(st.targets[0], ast.Name):
                    x, v = st.targets[0], st.value
                else:
                    continue
                if isinstance(v, (ast.Name, ast.Constant)) or not _pure_hoistable(v):
                    continue
                new_chain = base_names is not None and x.id not in base_names and isinstance(v, ast.Attribute) and all(isinstance(y, (ast.Attribute, ast.Name, ast.Load)) for y in ast.walk(v))
                if x.id in banned or x.id in params or stores.get(x.id, 0) != 1 or x.id in truthy or x.id in nested:
                    continue
                names = [y for y in ast.walk(v) if isinstance(y, ast.Name)]
                okn = True
                for y in names:
                    if y.id == x.id or y.id in nested:
                        okn = False
                    elif y.id in params:
                        # the parameter is not re-bound after this statement
                        if any(n.id == y.id and not isinstance(n.ctx, ast.Load) and pos[id(n)] > pos[id(x)] for n in order):
                            okn = False
                    elif stores.get(y.id, 0) == 0:
                        pass  # a global / builtin
                    elif stores.get(y.id, 0) == 1:
                        if any(n.id == y.id and not isinstance(n.ctx, ast.Load) and pos[id(n)] > pos[id(x)] for n in order):
                            okn = False
                    else:
                        # re-bound somewhere: only fine when every store precedes this statement
                        if any(n.id == y.id and not isinstance(n.ctx, ast.Load) and pos[id(n)] > pos[id(x)] for n in order):
                            okn = False
                if not okn:
                    continue
                chains = [norm_attr(a) for a in ast.walk(v) if isinstance(a, ast.Attribute)]
                if any(a == c or a.startswith(c + ".") or c.startswith(a + ".") for a in attr_stores for c in chains):
                    continue
                uses = [n for n in order if n.id == x.id and isinstance(n.ctx, ast.Load)]
                if not uses or any(pos[id(u)] < pos[id(x)] for u in uses) or not (new_chain or any(id(u) in in_loop for u in uses)):
                    continue
                if any(isinstance(y, ast.BinOp) for y in ast.walk(v)):
                    # an operator builds a *new* object each time: fine for numbers / strings used as numbers, wrong for a
                    # set or list that is mutated or whose identity matters - only arithmetic / slicing / comparing uses
                    arith = set()
                    for ctxn in ast.walk(fn):
                        kids = []
                        if isinstance(ctxn, ast.Slice):
                            kids = [ctxn.lower, ctxn.upper, ctxn.step]
                        elif isinstance(ctxn, ast.BinOp):
                            kids = [ctxn.left, ctxn.right]
                        elif isinstance(ctxn, ast.Compare):
                            kids = [ctxn.left] + list(ctxn.comparators)
                        elif isinstance(ctxn, ast.Subscript):
                            kids = [ctxn.slice]
                        elif isinstance(ctxn, ast.Call) and isinstance(ctxn.func, ast.Name) and ctxn.func.id == "range":
                            kids = list(ctxn.args)
                        for k_ in kids:
                            if isinstance(k_, ast.Name):
                                arith.add(id(k_))
                    if not all(id(u) in arith for u in uses):
                        continue
                found = (st, x.id, v)
                break
            if not found:
                break
            st, name, val = found
            fn.body.remove(st)
            if not fn.body:
                fn.body.append(ast.Pass())

            class R(ast.NodeTransformer):
                def visit_Name(self, n):
                    if n.id == name and isinstance(n.ctx, ast.Load):
                        return ast.copy_location(copy.deepcopy(val), n)
                    return n

            R().visit(fn)
            ast.fix_missing_locations(fn)
            total += 1
    return total


def norm_attr(e: ast.AST) -> str:
    try:
        return ast.unparse(e)
    except Exception:  # noqa: BLE001
        return ""


def _inside(parent_loop, node, loop) -> bool:
    """node lies (transitively) inside `loop` (None = anywhere in the function)"""
    if loop is None:
        return True
    cur = parent_loop.get(id(node))
    seen = 0
    while cur is not None and seen < 50:
        if cur is loop:
            return True
        cur = parent_loop.get(id(cur))
        seen += 1
    return False
