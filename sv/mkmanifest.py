#!/venv/bin/python
"""Regenerate /verif/MANIFEST.json from the rule modules present under sv/rules."""
from __future__ import annotations

import importlib
import json
import os
import sys

HERE = os.path.dirname(os.path.abspath(__file__))
VERIF = os.path.dirname(HERE)
sys.path.insert(0, VERIF)

PY = "/venv/bin/python"

BASELINE_OFF = "cd /repo && /venv/bin/python -m pytest -ra -q -p no:cacheprovider --timeout=900 --continue-on-collection-errors"


def main():
    checks, na = [], []
    for i in range(1, 21):
        pid = f"C{i:02d}"
        path = os.path.join(HERE, "rules", f"{pid}.py")
        if not os.path.exists(path):
            na.append({"property_id": pid, "reason": "no static rule registered yet for this property (see DESIGN.md section 3 for the planned structural clauses)"})
            continue
        mod = importlib.import_module(f"sv.rules.{pid}")
        meta = dict(getattr(mod, "META", {}))
        try:
            from sv.run import run_property

            _code, ck, _ = run_property(pid, "quick", write=False, quiet=True)
            meta.setdefault(
                "level",
                "Static analysis of /repo's source (own CFG / provenance engine; nothing is executed). Decides, on every path and call site, these structural necessary conditions: "
                + "; ".join(ck.decided)
                + ". It does NOT decide the behavioural statement as a whole.",
            )
            meta.setdefault(
                "note",
                "Not decided (value-level / runtime): " + "; ".join(ck.not_decided) + ". Trusted: CPython ast, the sv engine (self-tested in the thorough tier against the breaking and benign variants under /verif/seeded and /verif/benign), "
                + "; ".join(ck.trusted) + ".",
            )
            rules = sorted({o.rule.split(".", 1)[1] for o in ck.obs if "." in o.rule})
            meta.setdefault("technique", "static analysis (custom ast-based checker; nothing is executed): CFG cut-set guards / dominance / provenance / writer-reader agreement and a per-function swallowed-exception profile over the normalised parsed source; rules: " + ", ".join(rules))
        except Exception as exc:  # noqa: BLE001
            print(f"warning: could not evaluate {pid} for manifest text: {exc}")
        if meta.get("not_applicable"):
            na.append({"property_id": pid, "reason": meta["not_applicable"]})
            continue
        checks.append(
            {
                "property_id": pid,
                "quick_cmd": f"{PY} /verif/sv/run.py {pid} --tier quick",
                "thorough_cmd": f"{PY} /verif/sv/run.py {pid} --tier thorough",
                "evidence_file": f"/verif/evidence/{pid}.json",
                "replay_cmd_template": f"{PY} /verif/sv/run.py {pid} --replay {{path}}",
                "engine": "sv",
                "level_claimed": {
                    "category": "other",
                    "text": meta.get(
                        "level",
                        "Static analysis over /repo's source (own CFG + provenance engine): decides the structural necessary-condition clauses listed in DESIGN.md for this property on every path / call site; it does NOT decide the behavioural statement as a whole.",
                    ),
                    "design_ref": f"DESIGN.md section 3, {pid}",
                },
                "level_note": meta.get(
                    "note",
                    "Trusted: CPython ast, the sv CFG/provenance engine (self-tested with breaking variants and benign twins), assumed semantics of dvc_objects/fsspec/diskcache. Value-level clauses (bytes, digests, timing, schedules) are not decided.",
                ),
                "technique": meta.get("technique", "static analysis: CFG cut-set guards, dominance/ordering, provenance and writer/reader agreement over the parsed source"),
            }
        )
    manifest = {
        "version": 1,
        "setup_cmd": f"{PY} /verif/sv/run.py --selfcheck",
        "hooks": {
            "guard": "DVC_DATA_VERIF",
            "enable": "none needed: static analysis reads /repo's source; no hooks or instrumentation were added to iterative/dvc-data",
            "baseline_off_cmd": BASELINE_OFF,
            "source_commits": [],
            "add_only": True,
        },
        "engines": [
            {
                "name": "sv",
                "path": "/verif/sv",
                "serves_properties": [c["property_id"] for c in checks],
                "kind_free_text": "repository-specific static analyser: ast loader with call/class resolution and a normalisation pipeline (helper inlining, closure conversion, scalar replacement, copy coalescing, forward substitution, table-loop unrolling), statement-level CFG with short-circuit atom branches, cut-set guard / dominance / follow primitives with flag reasoning, alias-expanding provenance, order provenance, effect table, writer/reader agreement rules, aliasing lints",
            }
        ],
        "checks": checks,
        "not_applicable": na,
        "notes": "All checks are static (no execution of dvc_data). exit 0 = all obligations discharged; exit 1 + VIOLATION line = a structural clause fails at a named construct; exit 2 + ANALYSIS-ERROR = the analysis could not run (vanished anchor). Fifteen genuine defects were repaired by fix: commits in /repo (see known_findings.json 'fixed').",
    }
    with open(os.path.join(VERIF, "MANIFEST.json"), "w", encoding="utf-8") as f:
        json.dump(manifest, f, indent=1)
    print(f"MANIFEST.json: {len(checks)} checks, {len(na)} not_applicable")


if __name__ == "__main__":
    main()
