#!/venv/bin/python
"""Regenerate sv/baseline_locals.json: per module and function (qualified name) of the reference tree, the names the
function binds.  A function-level local that is NOT in this list is one a later edit introduced ("read the attribute
chain once into a local"); such a hoist of a pure attribute chain is put back before the rules look, even when it is not
read inside a loop (normalize.propagate_pure_hoists)."""
import ast, json, os, sys
HERE = os.path.dirname(os.path.abspath(__file__))
repo = sys.argv[1] if len(sys.argv) > 1 else "/repo"
root = os.path.join(repo, "src")


def quals(tree):
    out = {}

    def rec(node, prefix):
        for ch in ast.iter_child_nodes(node):
            if isinstance(ch, ast.ClassDef):
                rec(ch, prefix + ch.name + ".")
            elif isinstance(ch, (ast.FunctionDef, ast.AsyncFunctionDef)):
                out[prefix + ch.name] = ch
                rec(ch, prefix + ch.name + ".<locals>.")
            else:
                rec(ch, prefix)

    rec(tree, "")
    return out


if __name__ == "__main__":
    res = {}
    for dp, dn, fns in os.walk(os.path.join(root, "dvc_data")):
        for f in fns:
            if not f.endswith(".py"):
                continue
            p = os.path.join(dp, f)
            rel = os.path.relpath(p, root)[:-3].replace(os.sep, ".")
            if rel.endswith(".__init__"):
                rel = rel[: -len(".__init__")]
            t = ast.parse(open(p).read())
            res[rel] = {q: sorted({x.id for x in ast.walk(fn) if isinstance(x, ast.Name) and not isinstance(x.ctx, ast.Load)} | {a.arg for a in ast.walk(fn.args) if isinstance(a, ast.arg)})
                        for q, fn in quals(t).items()}
    json.dump(res, open(os.path.join(HERE, "baseline_locals.json"), "w"), indent=0, sort_keys=True)
    print(len(res), "modules", sum(len(v) for v in res.values()), "functions")
