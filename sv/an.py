"""Path primitives over the CFG: CUT (cut-set guard), ORDER/dominance, FOLLOW, counting."""
from __future__ import annotations

import ast
from typing import Callable, Dict, Iterable, List, Optional, Sequence, Set, Tuple

from .cfg import CFG, Node, calls_at, node_exprs
from .loader import Func, norm, walk_expr
from .prov import call_name, call_recv

EdgePred = Callable[[Node, Optional[str]], bool]  # (test node, label) -> justified?
NodePred = Callable[[Node], bool]


def _def_truth(d: Node) -> Optional[bool]:
    if getattr(d, "truth", None) is not None:
        return d.truth
    v = getattr(d.ast, "value", None)
    if isinstance(v, ast.Constant):
        return bool(v.value)
    return None


def _def_nonnone(d: Node) -> Optional[bool]:
    """Is the value assigned at d known to be None (False) / known not to be None (True)?"""
    v = getattr(d.ast, "value", None)
    if v is None:
        return None
    if isinstance(v, ast.Constant):
        return v.value is not None
    if isinstance(v, (ast.Tuple, ast.List, ast.Dict, ast.Set, ast.JoinedStr, ast.ListComp, ast.SetComp, ast.DictComp)):
        return True
    return None


def flag_edge_justified(g: CFG, n: Node, lab, justified: EdgePred, start: Optional[int], depth: int = 0, _memo: Optional[dict] = None) -> bool:
    _memo = {} if _memo is None else _memo
    key = (n.id, id(n.ast), lab, depth)
    if key in _memo:
        return _memo[key]
    _memo[key] = False  # recursion through the same test: not justified
    r = _flag_edge_justified(g, n, lab, justified, start, depth, _memo)
    _memo[key] = r
    return r


def _flag_edge_justified(g: CFG, n: Node, lab, justified: EdgePred, start: Optional[int], depth: int, _memo: dict) -> bool:
    """A test on a plain local flag:  `ok = a and b ... ; if ok:`.  The edge (ok, lab) is as good as a
    justified edge when every definition of the flag that can make this edge feasible is itself
    reachable only across justified edges (definitions with the opposite known truthiness make the
    edge infeasible and are ignored)."""
    if depth > 2 or n.kind != "test" or lab not in ("T", "F"):
        return False
    none_mode = False
    e0 = n.ast
    while isinstance(e0, ast.UnaryOp) and isinstance(e0.op, ast.Not):
        # `if not flag:` is `if flag:` with the edges swapped
        e0, lab = e0.operand, ("F" if lab == "T" else "T")
    if isinstance(e0, ast.Compare) and len(e0.ops) == 1 and isinstance(e0.ops[0], (ast.Is, ast.IsNot)) and isinstance(e0.left, ast.Name) and isinstance(e0.comparators[0], ast.Constant) and e0.comparators[0].value is None:
        # sentinel flag:  x = <value> | None ... if x is not None:
        none_mode = True
        want_value = (lab == "T") == isinstance(e0.ops[0], ast.IsNot)
        fname = e0.left.id
    elif isinstance(e0, ast.Name):
        fname = e0.id
    else:
        return False
    defs = reaching_defs(g, n.id, fname)
    if not defs:
        return False
    feasible = []
    for d in defs:
        if d.kind != "stmt" or not isinstance(d.ast, (ast.Assign, ast.AnnAssign)):
            return False
        if none_mode:
            nn = _def_nonnone(d)
            if nn is not None and nn != want_value:
                continue
        else:
            tr = _def_truth(d)
            if tr is not None and tr != (lab == "T"):
                continue  # this definition cannot take the edge
        feasible.append(d)
    if not feasible:
        return True  # edge infeasible
    plain = g.reach([g.entry if start is None else start])
    for d in feasible:
        d_start = g.entry if start is None else start
        if d.id not in plain:
            # defined before the region under analysis (a loop-invariant flag computed ahead of the loop):
            # judge it from the function entry, provided the flag is not redefined inside the region
            if any(node_defines(x, fname) for x in (g.nodes[i] for i in plain)):
                return False
            d_start = g.entry
        v = getattr(d.ast, "value", None)
        if none_mode and isinstance(v, ast.Name):
            # `cb = on_error ... if cb is not None:` is the test `if on_error is not None:` in disguise
            pseudo = Node(-1, "test", ast.Compare(left=v, ops=[ast.IsNot()], comparators=[ast.Constant(value=None)]), loops=d.loops)
            try:
                if justified(pseudo, "T" if want_value else "F"):
                    continue
            except Exception:  # noqa: BLE001
                pass
        if v is not None and not isinstance(v, ast.Constant) and not none_mode:
            # `flag = E` followed by `if flag:` is the test `if E:` in disguise
            vv, ll = v, lab
            while isinstance(vv, ast.UnaryOp) and isinstance(vv.op, ast.Not):
                vv, ll = vv.operand, ("F" if ll == "T" else "T")
            if isinstance(vv, ast.Call) and isinstance(vv.func, ast.Name) and vv.func.id == "bool" and len(vv.args) == 1:
                vv = vv.args[0]
            pseudo = Node(-1, "test", vv, loops=d.loops)
            try:
                if justified(pseudo, ll):
                    continue
                # flag = A and B: the flag being true means every conjunct is true (flag = A or B: false means every
                # disjunct is false) - one justified conjunct is enough
                if isinstance(vv, ast.BoolOp) and ((isinstance(vv.op, ast.And) and ll == "T") or (isinstance(vv.op, ast.Or) and ll == "F")):
                    hit_ = False
                    for part in vv.values:
                        pp, pl = part, ll
                        while isinstance(pp, ast.UnaryOp) and isinstance(pp.op, ast.Not):
                            pp, pl = pp.operand, ("F" if pl == "T" else "T")
                        if justified(Node(-1, "test", pp, loops=d.loops), pl):
                            hit_ = True
                            break
                    if hit_:
                        continue
                if isinstance(vv, ast.Name):
                    # flag = other_flag
                    inner = Node(d.id, "test", vv, loops=d.loops)
                    if flag_edge_justified(g, inner, ll, justified, start, depth + 1, _memo):
                        continue
            except Exception:  # noqa: BLE001
                pass
        def j2(t, l, depth=depth):
            return justified(t, l) or (t.id != n.id and flag_edge_justified(g, t, l, justified, start, depth + 1, _memo))

        def skip_edge(a, l, b):
            return a.kind in ("test", "for") and l in ("T", "F") and j2(a, l)

        reached = g.reach([d_start], skip_edge=skip_edge)
        if d.id in reached:
            # the definition itself is not guarded: it still does no harm if, from it, the test is only
            # reached (without the flag being redefined on the way) across justified edges
            onward = g.reach([d.id], skip_node=lambda x, d=d: x.id != d.id and node_defines(x, fname), skip_edge=skip_edge)
            if n.id in onward or n.id < 0:
                return False
    return True


def cut(
    g: CFG,
    sinks: Iterable[int],
    justified: EdgePred,
    start: Optional[int] = None,
    ignore_exc: bool = False,
) -> Optional[List[Tuple[int, Optional[str]]]]:
    """CUT: remove every justified branch edge; return None when no sink is
    reachable from start (entry by default), else a witness path.  Tests on boolean flags that were
    computed from justified conditions count as justified (see flag_edge_justified)."""
    sinks = set(sinks)
    memo: Dict[Tuple[int, Optional[str]], bool] = {}

    def skip_edge(n: Node, lab, d: Node) -> bool:
        if ignore_exc and lab == "exc":
            return True
        if not (n.kind in ("test", "for") and lab in ("T", "F")):
            return False
        if justified(n, lab):
            return True
        if n.kind == "test" and isinstance(n.ast, (ast.Name, ast.Compare)):
            k = (n.id, lab)
            if k not in memo:
                memo[k] = False  # guard against recursion through the same node
                memo[k] = flag_edge_justified(g, n, lab, justified, start)
            return memo[k]
        return False

    reached = g.reach([g.entry if start is None else start], skip_edge=skip_edge)
    for s in sinks:
        if s in reached:
            return g.path_to(reached, s)
    return None


def avoiding_path(
    g: CFG,
    target: int,
    avoid: NodePred,
    start: Optional[int] = None,
    ignore_exc: bool = False,
    stop_edge: Optional[Callable[[Node, Optional[str], Node], bool]] = None,
) -> Optional[List[Tuple[int, Optional[str]]]]:
    """Path start ~> target that passes no `avoid` node (target itself excluded).
    None means: every path to target passes an `avoid` node (dominance)."""

    def skip_node(n: Node) -> bool:
        return n.id != target and avoid(n)

    def skip_edge(n, lab, d):
        if ignore_exc and lab == "exc":
            return True
        return bool(stop_edge and stop_edge(n, lab, d))

    s = g.entry if start is None else start
    if avoid(g.nodes[s]) and s != target:
        return None
    reached = g.reach([s], skip_node=skip_node, skip_edge=skip_edge)
    if target in reached:
        return g.path_to(reached, target)
    return None


def escapes_without(
    g: CFG,
    src: int,
    must: NodePred,
    exits: Optional[Iterable[int]] = None,
    ignore_exc: bool = True,
    extra_skip_edge: Optional[Callable[[Node, Optional[str], Node], bool]] = None,
) -> Optional[List[Tuple[int, Optional[str]]]]:
    """FOLLOW: path from src (exclusive) to one of `exits` (normal exit by default)
    that passes no `must` node; None when every such path passes one."""
    ex = set(exits) if exits is not None else {g.exit}

    def skip_node(n: Node) -> bool:
        return n.id != src and must(n)

    def skip_edge(n, lab, d):
        if ignore_exc and lab == "exc":
            return True
        if extra_skip_edge and extra_skip_edge(n, lab, d):
            return True
        return False

    reached = g.reach([src], skip_node=skip_node, skip_edge=skip_edge)
    for e in ex:
        if e in reached and e != src:
            return g.path_to(reached, e)
    # src may itself be an exit target through a loop back edge
    for lab, d in g.nodes[src].succ:
        pass
    return None


def reaches(g: CFG, a: int, b: int, ignore_exc: bool = False, skip_edge=None) -> bool:
    def se(n, lab, d):
        if ignore_exc and lab == "exc":
            return True
        return bool(skip_edge and skip_edge(n, lab, d))

    r = g.reach([a], skip_edge=se)
    if a == b:
        # need a non-empty path
        for lab, d in g.nodes[a].succ:
            if not se(g.nodes[a], lab, g.nodes[d]):
                r2 = g.reach([d], skip_edge=se)
                if a in r2:
                    return True
        return False
    return b in r


# --------------------------------------------------------------------------
# node finders
# --------------------------------------------------------------------------


def nodes_calling(g: CFG, pred: Callable[[ast.Call], bool]) -> List[Tuple[Node, ast.Call]]:
    out = []
    for n in g.nodes.values():
        for c in calls_at(n):
            if pred(c):
                out.append((n, c))
    return out


def is_method_call(c: ast.Call, *names: str) -> bool:
    return isinstance(c.func, ast.Attribute) and c.func.attr in names


def is_name_call(c: ast.Call, *names: str) -> bool:
    return isinstance(c.func, ast.Name) and c.func.id in names


def atom_expr(n: Node) -> Optional[ast.expr]:
    if n.kind == "test":
        return n.ast
    return None


def loop_body_nodes(g: CFG, head: int) -> Set[int]:
    return {n.id for n in g.nodes.values() if head in n.loops and n.id != head}


def in_loop(g: CFG, n: Node) -> Optional[int]:
    return n.loops[-1] if n.loops else None


def count_on_paths(
    g: CFG,
    start_edges: List[Tuple[int, Optional[str]]],
    stops: Set[int],
    weight: Callable[[Node], int],
    ignore_exc: bool = True,
) -> Tuple[int, int, Dict[str, List]]:
    """Min and max total weight over acyclic paths that begin by following the
    given out-edges and end at a node in `stops` (exclusive).  Back edges to
    already visited nodes are ignored (inner loops counted once)."""
    best = {"min": None, "max": None}
    wit: Dict[str, List] = {"min": [], "max": []}

    import sys

    sys.setrecursionlimit(10000)

    def dfs(nid: int, acc: int, path: List[Tuple[int, Optional[str]]], onpath: Set[int]):
        if nid in stops:
            if best["min"] is None or acc < best["min"]:
                best["min"] = acc
                wit["min"] = list(path)
            if best["max"] is None or acc > best["max"]:
                best["max"] = acc
                wit["max"] = list(path)
            return
        if nid in onpath:
            return
        n = g.nodes[nid]
        acc2 = acc + weight(n)
        onpath.add(nid)
        for lab, d in n.succ:
            if ignore_exc and lab == "exc":
                continue
            path.append((nid, lab))
            dfs(d, acc2, path, onpath)
            path.pop()
        onpath.discard(nid)

    for src, lab in start_edges:
        for l2, d in g.nodes[src].succ:
            if l2 == lab:
                dfs(d, 0, [(src, lab)], {src} if src not in stops else set())
    return (best["min"] if best["min"] is not None else 0, best["max"] if best["max"] is not None else 0, wit)


def yields_at(n: Node) -> int:
    c = 0
    for e in node_exprs(n):
        for x in walk_expr(e):
            if isinstance(x, (ast.Yield, ast.YieldFrom)):
                c += 1
    return c


# --------------------------------------------------------------------------
# flow-sensitive reaching definitions
# --------------------------------------------------------------------------


def _binds(target: ast.AST, name: str) -> bool:
    return any(isinstance(x, ast.Name) and x.id == name for x in ast.walk(target))


def node_defines(n: Node, name: str) -> bool:
    cache = n.__dict__.get("_sv_defs")
    if cache is None:
        cache = n.__dict__["_sv_defs"] = {}
    r = cache.get(name)
    if r is None:
        r = cache[name] = _node_defines(n, name)
    return r


def _node_defines(n: Node, name: str) -> bool:
    a = n.ast
    if a is None:
        return False
    if n.kind == "for":
        return _binds(a.target, name)
    if n.kind == "with":
        return any(i.optional_vars is not None and _binds(i.optional_vars, name) for i in a.items)
    if n.kind == "handler":
        return a.name == name
    if isinstance(a, ast.Assign):
        return any(_binds(t, name) for t in a.targets if not isinstance(t, (ast.Attribute, ast.Subscript)))
    if isinstance(a, (ast.AnnAssign, ast.AugAssign)):
        return isinstance(a.target, ast.Name) and a.target.id == name
    if isinstance(a, (ast.FunctionDef, ast.AsyncFunctionDef, ast.ClassDef)):
        return a.name == name
    for x in walk_expr(a):
        if isinstance(x, ast.NamedExpr) and isinstance(x.target, ast.Name) and x.target.id == name:
            return True
    return False


def reaching_defs(g: CFG, nid: int, name: str) -> List[Node]:
    """Definition nodes of `name` that reach node nid (exclusive) along some path."""
    memo = g.__dict__.setdefault("_sv_rd", {})
    key = (nid, name, len(g.nodes))
    if key in memo:
        return list(memo[key])
    out = _reaching_defs(g, nid, name)
    memo[key] = out
    return list(out)


def _reaching_defs(g: CFG, nid: int, name: str) -> List[Node]:
    preds = g.preds()
    seen, out, todo = set(), [], [p for _l, p in preds[nid]]
    while todo:
        cur = todo.pop()
        if cur in seen:
            continue
        seen.add(cur)
        n = g.nodes[cur]
        if node_defines(n, name):
            out.append(n)
            continue
        todo.extend(p for _l, p in preds[cur])
    return out


def flows_from_calls(g: CFG, n: Node, e: ast.AST, calls, depth: int = 3) -> bool:
    """Flow-sensitive: can the value of e at node n come from one of the Call nodes?"""
    ids = {id(c) for c in calls}
    for x in walk_expr(e):
        if id(x) in ids:
            return True
    if depth <= 0:
        return False
    for x in walk_expr(e):
        if isinstance(x, ast.Name) and isinstance(x.ctx, ast.Load):
            for d in reaching_defs(g, n.id, x.id):
                src = d.ast.iter if d.kind == "for" else (d.ast.items[0].context_expr if d.kind == "with" else getattr(d.ast, "value", None))
                if src is not None and flows_from_calls(g, d, src, calls, depth - 1):
                    return True
    return False


# --------------------------------------------------------------------------
# order provenance (ALIGN): which ordered source does a sequence take its order/length from?
# --------------------------------------------------------------------------

_ORDER_KEEP = {"list", "tuple", "dict", "iter"}
_ORDER_BREAK = {"sorted", "set", "frozenset", "reversed", "shuffle"}
_ORDER_MAP_METHODS = {"info"}


def order_source(g: CFG, n: Node, e: ast.AST, fn_has_param, depth: int = 24) -> Set[str]:
    """Canonical description(s) of the ordered source a sequence expression gets its element
    order and length from, flow-sensitively at node n.  Two sequences are positionally aligned
    when their order sources are the same single `param:`/`call:` source."""
    if depth <= 0:
        return {"unknown:depth"}
    if isinstance(e, ast.Name):
        defs = reaching_defs(g, n.id, e.id)
        if not defs:
            return {f"param:{e.id}"} if fn_has_param(e.id) else {f"free:{e.id}"}
        out: Set[str] = set()
        for d in defs:
            if d.kind == "for":
                # an element of the enclosing loop: one fixed sequence per iteration
                out.add(f"loopvar:{e.id}@{d.id}")
                continue
            if d.kind == "with":
                out.add(f"unknown:{d.text()[:50]}")
                continue
            v = getattr(d.ast, "value", None)
            if v is None:
                out.add(f"unknown:{d.text()[:50]}")
            elif isinstance(d.ast, ast.Assign) and isinstance(d.ast.targets[0], (ast.Tuple, ast.List)):
                # a, b = zip(*rows): both take the order of rows
                if isinstance(v, ast.Call) and isinstance(v.func, ast.Name) and v.func.id == "zip" and len(v.args) == 1 and isinstance(v.args[0], ast.Starred):
                    out |= order_source(g, d, v.args[0].value, fn_has_param, depth - 1)
                elif isinstance(v, ast.Tuple) and all(isinstance(x, (ast.Tuple, ast.List)) and not x.elts for x in v.elts):
                    out.add("empty")
                else:
                    out.add(f"unknown:{d.text()[:50]}")
            elif (isinstance(v, (ast.Dict, ast.List)) and not (v.keys if isinstance(v, ast.Dict) else v.elts)) or (
                isinstance(v, ast.Call) and isinstance(v.func, ast.Name) and v.func.id in ("dict", "list") and not v.args):
                # accumulator filled in a loop: it takes the order of the loop's iterable
                blds = collection_builds(g, None, e.id)
                if not blds:
                    out.add("empty")
                for b in blds:
                    tn = set(b.target_names())
                    key_ok = b.key is None or (isinstance(b.key, ast.Name) and b.key.id in tn) or (
                        isinstance(b.key, ast.JoinedStr) and any(isinstance(x, ast.Name) and x.id in tn for x in ast.walk(b.key)))
                    if not b.unconditional:
                        out.add(f"filtered:{b!r}"[:80])
                    elif not key_ok:
                        out.add(f"collapsed:{b!r}"[:80])
                    else:
                        hd = g.nodes[b.node.loops[-1]] if b.node.loops else b.node
                        out |= order_source(g, hd, b.src, fn_has_param, depth - 1)
            else:
                out |= order_source(g, d, v, fn_has_param, depth - 1)
        return out
    if isinstance(e, ast.Call):
        f = e.func
        if isinstance(f, ast.Name) and f.id in _ORDER_KEEP and len(e.args) == 1:
            return order_source(g, n, e.args[0], fn_has_param, depth - 1)
        if isinstance(f, ast.Name) and f.id in _ORDER_BREAK:
            return {f"reordered:{ast.unparse(e)[:60]}"}
        if isinstance(f, ast.Attribute) and f.attr in ("items", "keys", "values", "copy") and not e.args:
            return order_source(g, n, f.value, fn_has_param, depth - 1)
        if isinstance(f, ast.Name) and f.id == "map" and len(e.args) == 2:
            return order_source(g, n, e.args[1], fn_has_param, depth - 1)
        if isinstance(f, ast.Name) and f.id == "zip" and e.args and not any(isinstance(a, ast.Starred) for a in e.args):
            srcs = [order_source(g, n, a, fn_has_param, depth - 1) for a in e.args]
            srcs = [s_ for s_ in srcs if s_ != {"repeat"}]
            if srcs and all(s_ == srcs[0] for s_ in srcs):
                return srcs[0]
            return {f"unknown:zip of {[sorted(s_) for s_ in srcs]}"[:80]}
        if isinstance(f, ast.Name) and f.id == "repeat":
            return {"repeat"}
        if isinstance(f, ast.Attribute) and f.attr in _ORDER_MAP_METHODS and e.args:
            # batch call answering element-wise, in the order of its (list) argument: fs.info([p1, p2, ...])
            return order_source(g, n, e.args[0], fn_has_param, depth - 1)
        return {f"call:{ast.unparse(e)[:80]}"}
    if isinstance(e, (ast.ListComp, ast.GeneratorExp, ast.DictComp, ast.SetComp)):
        if isinstance(e, ast.SetComp):
            return {f"reordered:{ast.unparse(e)[:60]}"}
        if len(e.generators) != 1 or e.generators[0].ifs:
            return {f"filtered:{ast.unparse(e)[:60]}"}
        gen = e.generators[0]
        if isinstance(e, ast.DictComp):
            # length/order preserved only if the key is (an injective image of) the loop element
            tnames = {x.id for x in ast.walk(gen.target) if isinstance(x, ast.Name)}
            k = e.key
            key_ok = (isinstance(k, ast.Name) and k.id in tnames) or (
                isinstance(k, ast.JoinedStr) and any(isinstance(x, ast.Name) and x.id in tnames for x in ast.walk(k)))
            if not key_ok:
                return {f"collapsed:{ast.unparse(e)[:60]}"}
        return order_source(g, n, gen.iter, fn_has_param, depth - 1)
    if isinstance(e, (ast.List, ast.Tuple)) and not e.elts:
        return {"empty"}
    if isinstance(e, ast.Starred):
        return order_source(g, n, e.value, fn_has_param, depth - 1)
    return {f"unknown:{ast.unparse(e)[:60]}"}


# --------------------------------------------------------------------------
# collection content model: comprehension  <->  accumulate-in-a-loop
# --------------------------------------------------------------------------


class Build:
    """One way a local collection gets its elements: `elt` for `target` in `src` [if ifs]."""

    def __init__(self, src, elt, target, ifs, unconditional, node, key=None):
        self.src, self.elt, self.target, self.ifs, self.unconditional, self.node, self.key = src, elt, target, ifs, unconditional, node, key

    def target_names(self) -> List[str]:
        return [x.id for x in ast.walk(self.target) if isinstance(x, ast.Name)]

    def __repr__(self):
        return f"<Build {ast.unparse(self.elt)} for {ast.unparse(self.target)} in {ast.unparse(self.src)} ifs={[ast.unparse(i) for i in self.ifs]} uncond={self.unconditional}>"


def comp_build(v: ast.AST, n) -> Optional[Build]:
    """Build description of a comprehension expression (possibly wrapped in set()/list()/dict()/sorted())."""
    inner = v
    while isinstance(inner, ast.Call) and isinstance(inner.func, ast.Name) and inner.func.id in ("set", "list", "tuple", "frozenset", "sorted", "dict") and len(inner.args) >= 1:
        inner = inner.args[0]
    if isinstance(inner, (ast.ListComp, ast.SetComp, ast.GeneratorExp)) and len(inner.generators) == 1:
        gen = inner.generators[0]
        return Build(gen.iter, inner.elt, gen.target, list(gen.ifs), not gen.ifs, n)
    if isinstance(inner, ast.DictComp) and len(inner.generators) == 1:
        gen = inner.generators[0]
        return Build(gen.iter, inner.value, gen.target, list(gen.ifs), not gen.ifs, n, key=inner.key)
    return None


def collection_builds(g: CFG, fn_node: ast.AST, name: str) -> List[Build]:
    """How is local collection `name` filled?  Recognises
         name = [/{ elt for target in src if ... }/]      (also wrapped in set()/list()/sorted())
         name = set()/[]/{} ... for target in src: ...; name.add/append(elt)   (also name[k] = v)
    """
    out: List[Build] = []
    for n in g.nodes.values():
        a = n.ast
        if n.kind == "stmt" and isinstance(a, (ast.Assign, ast.AnnAssign)):
            tgt = a.targets[0] if isinstance(a, ast.Assign) else a.target
            v = a.value
            if isinstance(tgt, ast.Name) and tgt.id == name and v is not None:
                inner = v
                while isinstance(inner, ast.Call) and isinstance(inner.func, ast.Name) and inner.func.id in ("set", "list", "tuple", "frozenset", "sorted", "dict") and len(inner.args) >= 1:
                    inner = inner.args[0]
                if isinstance(inner, (ast.ListComp, ast.SetComp, ast.GeneratorExp)) and len(inner.generators) == 1:
                    gen = inner.generators[0]
                    out.append(Build(gen.iter, inner.elt, gen.target, list(gen.ifs), not gen.ifs, n))
                elif isinstance(inner, ast.DictComp) and len(inner.generators) == 1:
                    gen = inner.generators[0]
                    out.append(Build(gen.iter, inner.value, gen.target, list(gen.ifs), not gen.ifs, n, key=inner.key))
    for n in g.nodes.values():
        if not n.loops:
            continue
        for c in calls_at(n):
            if isinstance(c.func, ast.Attribute) and c.func.attr in ("add", "append") and isinstance(c.func.value, ast.Name) and c.func.value.id == name and len(c.args) == 1:
                h = g.nodes[n.loops[-1]]
                if h.kind != "for":
                    continue
                starts = [d for lab, d in h.succ if lab == "T"]
                r = g.reach(starts, skip_node=lambda x, n=n: x.id == n.id, skip_edge=lambda a_, l, b_: l == "exc")
                uncond = h.id not in r
                # collect the (positive) test atoms guarding the add inside the loop body
                ifs = []
                if not uncond:
                    for t in g.nodes.values():
                        if t.kind == "test" and h.id in t.loops:
                            ifs.append(t.ast)
                out.append(Build(h.ast.iter, c.args[0], h.ast.target, ifs, uncond, n))
        a = n.ast
        if n.kind == "stmt" and isinstance(a, ast.Assign) and isinstance(a.targets[0], ast.Subscript) and isinstance(a.targets[0].value, ast.Name) and a.targets[0].value.id == name:
            h = g.nodes[n.loops[-1]]
            if h.kind == "for":
                starts = [d for lab, d in h.succ if lab == "T"]
                r = g.reach(starts, skip_node=lambda x, n=n: x.id == n.id, skip_edge=lambda a_, l, b_: l == "exc")
                uncond = h.id not in r
                ifs = [t.ast for t in g.nodes.values() if t.kind == "test" and h.id in t.loops] if not uncond else []
                out.append(Build(h.ast.iter, a.value, h.ast.target, ifs, uncond, n, key=a.targets[0].slice))
    return out


def value_alts(g: CFG, n: Node, e: ast.AST, depth: int = 2) -> List[ast.AST]:
    """Flow-sensitive alias expansion: alternatives for the value of e at node n, following
    reaching definitions of plain names (tuple assignments are split component-wise)."""
    out = [e]
    if depth <= 0 or not isinstance(e, ast.Name):
        return out
    for d in reaching_defs(g, n.id, e.id):
        a = d.ast
        v = None
        if isinstance(a, ast.Assign):
            for t in a.targets:
                if isinstance(t, ast.Name) and t.id == e.id:
                    v = a.value
                elif isinstance(t, (ast.Tuple, ast.List)) and isinstance(a.value, (ast.Tuple, ast.List)) and len(t.elts) == len(a.value.elts):
                    for tt, vv in zip(t.elts, a.value.elts):
                        if isinstance(tt, ast.Name) and tt.id == e.id:
                            v = vv
        elif isinstance(a, ast.AnnAssign) and a.value is not None:
            v = a.value
        if v is not None:
            out.append(v)
            if isinstance(v, ast.Name):
                out += value_alts(g, d, v, depth - 1)[1:]
    return out


def eq_edge(t: Node, lab: Optional[str], a: str, b: str) -> Optional[bool]:
    """If t is the test `a == b` / `a != b` (either operand order; a, b given as normalised text),
    return True when the edge `lab` means 'equal', False when it means 'unequal', else None."""
    e = t.ast
    if t.kind != "test" or not (isinstance(e, ast.Compare) and len(e.ops) == 1 and isinstance(e.ops[0], (ast.Eq, ast.NotEq, ast.Is, ast.IsNot))):
        return None
    sides = {ast.unparse(e.left), ast.unparse(e.comparators[0])}
    if sides != {a, b}:
        return None
    is_eq_op = isinstance(e.ops[0], (ast.Eq, ast.Is))
    if lab == "T":
        return is_eq_op
    if lab == "F":
        return not is_eq_op
    return None


def with_flags(g: CFG, justified: EdgePred, start: Optional[int] = None) -> EdgePred:
    """Lift an edge predicate so that tests on boolean flags computed from justified conditions count too."""
    memo: Dict[Tuple[int, Optional[str]], bool] = {}

    def pred(n: Node, lab) -> bool:
        if not (n.kind in ("test", "for") and lab in ("T", "F")):
            return False
        if justified(n, lab):
            return True
        if n.kind == "test" and isinstance(n.ast, (ast.Name, ast.Compare)):
            k = (n.id, lab)
            if k not in memo:
                memo[k] = False
                memo[k] = flag_edge_justified(g, n, lab, justified, start)
            return memo[k]
        return False

    return pred


class ResultSite:
    """One way a function produces its result: `value` computed at `node` and handed out by `ret`
    (node is ret for a plain `return E`; for `x = E ... return x` node is the assignment and var is x)."""

    def __init__(self, node: Node, value: ast.AST, ret: Node, var: Optional[str]):
        self.node, self.value, self.ret, self.var = node, value, ret, var


def result_sites(g: CFG, depth: int = 2) -> List[ResultSite]:
    out: List[ResultSite] = []
    seen = set()

    def add(n: Node, v: ast.AST, ret: Node, var: Optional[str], d: int):
        if isinstance(v, ast.Name) and d > 0:
            defs = reaching_defs(g, n.id, v.id)
            if defs and all(x.kind == "stmt" and isinstance(x.ast, (ast.Assign, ast.AnnAssign)) and getattr(x.ast, "value", None) is not None
                            and (isinstance(x.ast, ast.AnnAssign) or (len(x.ast.targets) == 1 and isinstance(x.ast.targets[0], ast.Name))) for x in defs):
                for x in defs:
                    if isinstance(x.ast.value, ast.Name) and d > 1:
                        add(x, x.ast.value, ret, v.id, d - 1)
                    elif (x.id, ret.id) not in seen:
                        seen.add((x.id, ret.id))
                        out.append(ResultSite(x, x.ast.value, ret, v.id))
                return
        if (n.id, ret.id) not in seen:
            seen.add((n.id, ret.id))
            out.append(ResultSite(n, v, ret, var))

    for n in g.nodes.values():
        if n.kind == "stmt" and isinstance(n.ast, ast.Return) and n.ast.value is not None:
            add(n, n.ast.value, n, None, depth)
    return out


def cut_result(g: CFG, site: ResultSite, justified: EdgePred, start: Optional[int] = None):
    """CUT for a result site: is there a way to compute the value at site.node and hand it out at site.ret
    (without the variable being overwritten in between) that crosses no justified edge?  None if not."""
    if site.node.id == site.ret.id:
        return cut(g, [site.ret.id], justified, start=start)
    lifted = with_flags(g, justified, start=start)

    def skip_edge(n, lab, d):
        return n.kind in ("test", "for") and lab in ("T", "F") and lifted(n, lab)

    first = g.reach([g.entry if start is None else start], skip_edge=skip_edge)
    if site.node.id not in first:
        return None
    second = g.reach([site.node.id], skip_node=lambda x: x.id != site.node.id and site.var is not None and node_defines(x, site.var), skip_edge=skip_edge)
    if site.ret.id not in second:
        return None
    return (g.path_to(first, site.node.id) or []) + (g.path_to(second, site.ret.id) or [])[1:]


def reach_const_flags(g: CFG, starts: Iterable[int], skip_node: Optional[NodePred] = None, ignore_exc: bool = False) -> Set[int]:
    """Forward reachability that remembers plain locals assigned a constant on the way (`ok = False`) and, at a test on
    such a local (`if ok:` / `if not ok:`), follows the feasible edge only.  Everything else is followed as usual."""
    seen: Set[Tuple[int, Tuple[Tuple[str, bool], ...]]] = set()
    out: Set[int] = set()
    todo: List[Tuple[int, Tuple[Tuple[str, bool], ...]]] = [(s_, ()) for s_ in starts]
    while todo:
        nid, env_t = todo.pop()
        if (nid, env_t) in seen:
            continue
        seen.add((nid, env_t))
        out.add(nid)
        n = g.nodes[nid]
        if skip_node is not None and skip_node(n):
            continue
        env = dict(env_t)
        a = n.ast
        if n.kind == "stmt" and isinstance(a, (ast.Assign, ast.AnnAssign, ast.AugAssign)):
            tgts = a.targets if isinstance(a, ast.Assign) else [a.target]
            for t in tgts:
                for x in ast.walk(t):
                    if isinstance(x, ast.Name):
                        env.pop(x.id, None)
            if isinstance(a, ast.Assign) and len(tgts) == 1 and isinstance(tgts[0], ast.Name):
                tr = _def_truth(n)
                if tr is not None:
                    env[tgts[0].id] = tr
        elif n.kind in ("for", "with", "handler") or (n.kind == "stmt" and isinstance(a, (ast.FunctionDef, ast.ClassDef, ast.Import, ast.ImportFrom))):
            for x in ast.walk(a) if a is not None and n.kind != "handler" else []:
                if isinstance(x, ast.Name) and not isinstance(x.ctx, ast.Load):
                    env.pop(x.id, None)
        want = None
        if n.kind == "test":
            e, neg = a, False
            while isinstance(e, ast.UnaryOp) and isinstance(e.op, ast.Not):
                e, neg = e.operand, not neg
            if isinstance(e, ast.Name) and e.id in env:
                want = "T" if env[e.id] != neg else "F"
        env_n = tuple(sorted(env.items()))
        for lab, d in n.succ:
            if ignore_exc and lab == "exc":
                continue
            if want is not None and lab in ("T", "F") and lab != want:
                continue
            todo.append((d, env_n))
    return out
