"""Loader: parses the repository under analysis into a resolved program model.

Nothing here imports or executes dvc_data.  Everything is read from source
with `ast` on every run.
"""
from __future__ import annotations

import ast
import os
from dataclasses import dataclass, field
from typing import Dict, Iterator, List, Optional, Set, Tuple


class AnalysisError(Exception):
    """The analysis itself cannot run (vanished anchor, unparsable file...)."""


REPO = os.environ.get("SV_REPO", "/repo")
_BASELINE = None
PKG = "dvc_data"


def src_root(repo: Optional[str] = None) -> str:
    return os.path.join(repo or REPO, "src")


# --------------------------------------------------------------------------
# model
# --------------------------------------------------------------------------


# names of the modules whose function / class bodies were read since the last reset (used by the thorough
# tier to decide which committed variants can possibly change a property's verdict)
CONSULTED: Set[str] = set()


@dataclass
class Func:
    module: "Module"
    qual: str  # "gc", "HashFileDB.add", "_add.<locals>._error"
    node: ast.AST  # FunctionDef / AsyncFunctionDef / Lambda
    cls: Optional["ClassInfo"] = None
    parent: Optional["Func"] = None
    children: Dict[str, "Func"] = field(default_factory=dict)
    local_imports: Dict[str, Tuple[str, Optional[str]]] = field(default_factory=dict)

    def __getattribute__(self, attr):
        if attr == "node":
            CONSULTED.add(object.__getattribute__(self, "module").name)
        return object.__getattribute__(self, attr)

    @property
    def name(self) -> str:
        return self.qual.split(".")[-1]

    @property
    def fq(self) -> str:
        return f"{self.module.name}:{self.qual}"

    @property
    def params(self) -> List[str]:
        a = self.node.args
        out = [x.arg for x in a.posonlyargs + a.args]
        if a.vararg:
            out.append("*" + a.vararg.arg)
        out += [x.arg for x in a.kwonlyargs]
        if a.kwarg:
            out.append("**" + a.kwarg.arg)
        return out

    @property
    def pos_params(self) -> List[str]:
        a = self.node.args
        return [x.arg for x in a.posonlyargs + a.args]

    @property
    def kwonly_params(self) -> List[str]:
        return [x.arg for x in self.node.args.kwonlyargs]

    def has_param(self, name: str) -> bool:
        a = self.node.args
        names = {x.arg for x in a.posonlyargs + a.args + a.kwonlyargs}
        if a.vararg:
            names.add(a.vararg.arg)
        if a.kwarg:
            names.add(a.kwarg.arg)
        return name in names

    def param_default(self, name: str) -> Optional[ast.expr]:
        a = self.node.args
        pos = a.posonlyargs + a.args
        nd = len(a.defaults)
        for i, p in enumerate(pos):
            if p.arg == name:
                j = i - (len(pos) - nd)
                return a.defaults[j] if j >= 0 else None
        for p, d in zip(a.kwonlyargs, a.kw_defaults):
            if p.arg == name:
                return d
        return None

    def param_annotation(self, name: str) -> Optional[str]:
        a = self.node.args
        for p in a.posonlyargs + a.args + a.kwonlyargs:
            if p.arg == name and p.annotation is not None:
                ann = p.annotation
                if isinstance(ann, ast.Constant) and isinstance(ann.value, str):
                    return ann.value
                return ast.unparse(ann)
        return None

    @property
    def is_method(self) -> bool:
        return self.cls is not None and self.parent is None

    def loc(self, node: Optional[ast.AST] = None) -> str:
        n = node if node is not None else self.node
        return f"{self.module.relpath}:{getattr(n, 'lineno', '?')}"

    def __hash__(self):
        return hash(self.fq)

    def __eq__(self, other):
        return isinstance(other, Func) and other.fq == self.fq

    def __repr__(self):
        return f"<Func {self.fq}>"


@dataclass
class ClassInfo:
    module: "Module"
    name: str
    node: ast.ClassDef
    bases: List[str] = field(default_factory=list)
    methods: Dict[str, Func] = field(default_factory=dict)
    attrs: Dict[str, ast.expr] = field(default_factory=dict)  # class-level constants
    ann_attrs: Dict[str, ast.AnnAssign] = field(default_factory=dict)

    def __getattribute__(self, attr):
        if attr in ("node", "attrs", "ann_attrs"):
            CONSULTED.add(object.__getattribute__(self, "module").name)
        return object.__getattribute__(self, attr)

    @property
    def fq(self) -> str:
        return f"{self.module.name}:{self.name}"

    def __hash__(self):
        return hash(self.fq)

    def __eq__(self, other):
        return isinstance(other, ClassInfo) and other.fq == self.fq

    def __repr__(self):
        return f"<Class {self.fq}>"


@dataclass
class Module:
    name: str
    path: str
    relpath: str
    src: str
    tree: ast.Module
    funcs: Dict[str, Func] = field(default_factory=dict)  # qual -> Func (all, incl nested & methods)
    classes: Dict[str, ClassInfo] = field(default_factory=dict)
    imports: Dict[str, Tuple[str, Optional[str]]] = field(default_factory=dict)
    consts: Dict[str, ast.expr] = field(default_factory=dict)
    trusted: bool = False


def _set_parents(tree: ast.AST) -> None:
    for node in ast.walk(tree):
        for child in ast.iter_child_nodes(node):
            child._parent = node  # type: ignore[attr-defined]
    tree._parent = None  # type: ignore[attr-defined]


def parent(node: ast.AST) -> Optional[ast.AST]:
    return getattr(node, "_parent", None)


def _resolve_relative(modname: str, is_pkg: bool, level: int, target: Optional[str]) -> str:
    parts = modname.split(".")
    if not is_pkg:
        parts = parts[:-1]
    if level > 1:
        parts = parts[: len(parts) - (level - 1)]
    if target:
        parts = parts + target.split(".")
    return ".".join(parts)


def _collect_imports(body_nodes, modname: str, is_pkg: bool) -> Dict[str, Tuple[str, Optional[str]]]:
    out: Dict[str, Tuple[str, Optional[str]]] = {}
    for n in body_nodes:
        if isinstance(n, ast.Import):
            for a in n.names:
                out[a.asname or a.name.split(".")[0]] = (a.name if a.asname else a.name.split(".")[0], None)
        elif isinstance(n, ast.ImportFrom):
            base = _resolve_relative(modname, is_pkg, n.level, n.module) if n.level else (n.module or "")
            for a in n.names:
                out[a.asname or a.name] = (base, a.name)
    return out


class Program:
    def __init__(self, repo: Optional[str] = None):
        self.repo = repo or REPO
        self.modules: Dict[str, Module] = {}
        self._subclasses: Dict[str, List[ClassInfo]] = {}
        self._load()
        CONSULTED.clear()

    # ---------------------------------------------------------------- load
    def _load(self) -> None:
        root = os.path.join(self.repo, "src")
        pkgdir = os.path.join(root, PKG)
        if not os.path.isdir(pkgdir):
            raise AnalysisError(f"package directory missing: {pkgdir}")
        # names imported from sibling modules: an extracted helper that another module imports must
        # survive in its home module even when all of its local uses were inlined
        self.imported_names: Set[str] = set()
        self.req_sigs: Dict[str, list] = {}
        for dirpath, _dirs, files in os.walk(pkgdir):
            for fn in sorted(files):
                if fn.endswith(".py"):
                    try:
                        with open(os.path.join(dirpath, fn), encoding="utf-8") as f:
                            t0 = ast.parse(f.read())
                    except (OSError, SyntaxError):
                        continue
                    defined_here = {x.name for x in ast.walk(t0) if isinstance(x, (ast.FunctionDef, ast.AsyncFunctionDef))}
                    for x in ast.walk(t0):
                        if isinstance(x, ast.ImportFrom):
                            self.imported_names.update(a.name for a in x.names)
                        # a method used through self / cls that is not defined in this file lives in a base class of
                        # another module: it must survive there even if all of its local uses were inlined
                        if isinstance(x, ast.Attribute) and isinstance(x.value, ast.Name) and x.value.id in ("self", "cls") and x.attr not in defined_here:
                            self.imported_names.add(x.attr)
                    from .normalize import collect_required_signatures

                    collect_required_signatures(t0, self.req_sigs)
        for dirpath, _dirs, files in os.walk(pkgdir):
            for fn in sorted(files):
                if not fn.endswith(".py"):
                    continue
                path = os.path.join(dirpath, fn)
                rel = os.path.relpath(path, self.repo)
                modrel = os.path.relpath(path, root)[:-3].replace(os.sep, ".")
                is_pkg = modrel.endswith(".__init__")
                if is_pkg:
                    modrel = modrel[: -len(".__init__")]
                self._load_module(modrel, path, rel, is_pkg)
        # trusted base: dvc_objects.db (read-only, never reported on)
        self.trusted_paths: List[str] = []
        try:
            import importlib.util

            spec = importlib.util.find_spec("dvc_objects")
            if spec and spec.submodule_search_locations:
                p = os.path.join(list(spec.submodule_search_locations)[0], "db.py")
                if os.path.exists(p):
                    self._load_module("dvc_objects.db", p, p, False, trusted=True)
                    self.trusted_paths.append(p)
        except Exception:  # noqa: BLE001
            pass
        self._link_classes()

    def _load_module(self, modname, path, rel, is_pkg, trusted=False) -> None:
        try:
            with open(path, encoding="utf-8") as f:
                src = f.read()
            tree = ast.parse(src, filename=path)
        except (OSError, SyntaxError) as exc:
            raise AnalysisError(f"cannot parse {path}: {exc}") from exc
        inlined: List[str] = []
        renamed: Dict[str, str] = {}
        if not trusted and not os.environ.get("SV_NO_INLINE"):
            from .inline import inline_unknown_helpers, load_baseline
            from .normalize import desugar, forward_substitute_temps as _fst

            from .normalize import canonicalise_required_kwargs

            from .normalize import inline_new_constants

            inline_new_constants(tree, modname)
            n_kw = canonicalise_required_kwargs(tree, getattr(self, "req_sigs", {}))
            n_ds = desugar(tree)
            from .normalize import expand_dispatch

            n_ds += expand_dispatch(tree)
            from .normalize import apply_local_partials

            n_ds += apply_local_partials(tree)
            _fst(tree)  # so that `g = helper(...); for x in g:` is seen as one consumer by the inliner

            global _BASELINE
            if _BASELINE is None:
                _BASELINE = load_baseline()
            try:
                inlined, renamed = inline_unknown_helpers(tree, modname, _BASELINE, keep=getattr(self, 'imported_names', set()))
            except RecursionError:
                inlined, renamed = [], {}
            from .normalize import forward_substitute_temps, scalarise_records

            if n_kw:
                inlined = inlined + [f"{n_kw} keyword argument(s) for required parameters put in positional form"]
            if n_ds:
                inlined = inlined + [f"desugared {n_ds} walrus / suppress() construct(s)"]

            from .normalize import coalesce_copies, propagate_param_copies

            tot = {"sc": 0, "pc": 0, "cc": 0, "fs": 0}
            from .normalize import propagate_attr_copies

            n_ac = 0 if os.environ.get("SV_NO_ATTRCOPY") else propagate_attr_copies(tree)
            if n_ac:
                inlined = inlined + [f"put back {n_ac} attribute chain(s) that had been copied into locals"]
            from .normalize import propagate_pure_hoists

            if not os.environ.get("SV_NO_HOISTS"):
                propagate_pure_hoists(tree, modname)
            for _round in range(3):
                n_pc = propagate_param_copies(tree)
                n_cc = coalesce_copies(tree)
                n_sc = scalarise_records(tree)
                n_fs = forward_substitute_temps(tree)
                tot["pc"] += n_pc
                tot["cc"] += n_cc
                tot["sc"] += n_sc
                tot["fs"] += n_fs
                if not (n_pc or n_cc or n_sc):
                    break
            if tot["sc"]:
                inlined = inlined + [f"scalarised {tot['sc']} record local(s)"]
            if tot["pc"]:
                inlined = inlined + [f"propagated {tot['pc']} copies of parameters"]
            if tot["cc"]:
                inlined = inlined + [f"coalesced {tot['cc']} plain copies"]
            if tot["fs"]:
                inlined = inlined + [f"forward-substituted {tot['fs']} adjacent single-use temporaries / bool() tests"]
            from .normalize import expand_search_idioms, unroll_table_loops
            from .normalize import _build_conditional_dicts, _split_conditional_receivers

            _split_conditional_receivers(tree)
            _build_conditional_dicts(tree)
            from .normalize import _unroll_table_comprehensions

            if _unroll_table_comprehensions(tree):
                forward_substitute_temps(tree)
            n_se = expand_search_idioms(tree)
            if n_se:
                inlined = inlined + [f"expanded {n_se} next()/any()/all() search idiom(s) into loops"]

            n_un = unroll_table_loops(tree)
            if n_un:
                inlined = inlined + [f"unrolled {n_un} table-driven loop(s)"]
                forward_substitute_temps(tree)
        _set_parents(tree)
        mod = Module(modname, path, rel, src, tree, trusted=trusted)
        mod.inlined = inlined  # type: ignore[attr-defined]
        mod.is_pkg = is_pkg  # type: ignore[attr-defined]
        # imports anywhere at module level (incl. under `if TYPE_CHECKING:`)
        top_nodes: List[ast.AST] = []
        for n in tree.body:
            top_nodes.append(n)
            if isinstance(n, (ast.If, ast.Try)):
                for sub in ast.walk(n):
                    if isinstance(sub, (ast.Import, ast.ImportFrom)):
                        top_nodes.append(sub)
        mod.imports = _collect_imports(top_nodes, modname, is_pkg)
        for n in tree.body:
            if isinstance(n, ast.Assign) and len(n.targets) == 1 and isinstance(n.targets[0], ast.Name):
                mod.consts[n.targets[0].id] = n.value
            elif isinstance(n, ast.AnnAssign) and isinstance(n.target, ast.Name) and n.value is not None:
                mod.consts[n.target.id] = n.value
        self._collect_defs(mod, tree.body, prefix="", cls=None, parent=None)
        # renamed baseline functions stay addressable under their baseline name
        mod.renamed = renamed  # type: ignore[attr-defined]
        for new_q, old_q in renamed.items():
            fn = mod.funcs.get(new_q)
            if fn is None or old_q in mod.funcs:
                continue
            mod.funcs[old_q] = fn
            if "." in old_q:
                cname, mname = old_q.rsplit(".", 1)
                ci = mod.classes.get(cname)
                if ci is not None and mname not in ci.methods:
                    ci.methods[mname] = fn
        self.modules[modname] = mod

    def _collect_defs(self, mod: Module, body, prefix: str, cls, parent) -> None:
        for n in body:
            if isinstance(n, (ast.FunctionDef, ast.AsyncFunctionDef)):
                qual = prefix + n.name
                fn = Func(mod, qual, n, cls=cls if parent is None else None, parent=parent)
                # a property setter etc. share a name: keep the first, store others suffixed
                key = qual
                k = 1
                while key in mod.funcs:
                    k += 1
                    key = f"{qual}#{k}"
                fn.qual = key
                mod.funcs[key] = fn
                if parent is not None:
                    parent.children[n.name] = fn
                elif cls is not None and n.name not in cls.methods:
                    cls.methods[n.name] = fn
                fn.local_imports = _collect_imports(
                    [x for x in _walk_own(n) if isinstance(x, (ast.Import, ast.ImportFrom))],
                    mod.name,
                    getattr(mod, "is_pkg", False),
                )
                self._collect_defs(mod, _own_stmts(n), prefix=key + ".<locals>.", cls=cls, parent=fn)
            elif isinstance(n, ast.ClassDef):
                if parent is not None:
                    # class nested in a function: collect its methods as nested funcs
                    ci = ClassInfo(mod, prefix + n.name, n)
                    mod.classes[ci.name] = ci
                    ci.bases = [ast.unparse(b) for b in n.bases]
                    self._collect_defs(mod, n.body, prefix=prefix + n.name + ".", cls=ci, parent=None)
                    continue
                ci = ClassInfo(mod, prefix + n.name, n)
                ci.bases = [ast.unparse(b) for b in n.bases]
                for s in n.body:
                    if isinstance(s, ast.Assign) and len(s.targets) == 1 and isinstance(s.targets[0], ast.Name):
                        ci.attrs[s.targets[0].id] = s.value
                    elif isinstance(s, ast.AnnAssign) and isinstance(s.target, ast.Name):
                        ci.ann_attrs[s.target.id] = s
                        if s.value is not None:
                            ci.attrs[s.target.id] = s.value
                mod.classes[ci.name] = ci
                self._collect_defs(mod, n.body, prefix=prefix + n.name + ".", cls=ci, parent=None)
            elif isinstance(n, (ast.If, ast.Try, ast.With, ast.For, ast.While)):
                # definitions nested in module-level control flow
                for fld in ("body", "orelse", "finalbody"):
                    self._collect_defs(mod, getattr(n, fld, []) or [], prefix, cls, parent)
                for h in getattr(n, "handlers", []) or []:
                    self._collect_defs(mod, h.body, prefix, cls, parent)

    def _link_classes(self) -> None:
        for mod in self.modules.values():
            for ci in mod.classes.values():
                for b in ci.bases:
                    bc = self.resolve_class(mod, b)
                    if bc is not None:
                        self._subclasses.setdefault(bc.fq, []).append(ci)

    # ------------------------------------------------------------- lookups
    def module(self, name: str) -> Module:
        full = name if name.startswith(PKG) or name.startswith("dvc_objects") else f"{PKG}.{name}"
        if full not in self.modules:
            raise AnalysisError(f"anchor module vanished: {full}")
        CONSULTED.add(full)
        return self.modules[full]

    def func(self, modname: str, qual: str) -> Func:
        m = self.module(modname)
        if qual not in m.funcs:
            raise AnalysisError(f"anchor function vanished: {m.name}:{qual}")
        return m.funcs[qual]

    def inlined_view(self, fn: Func) -> Func:
        """fn with its directly-called closures inlined (see inline.inline_closures); cached."""
        cached = getattr(fn, "_sv_view", None)
        if cached is not None:
            return cached
        from .inline import inline_closures
        from .normalize import forward_substitute_temps

        node, done = inline_closures(fn.node)
        if not done:
            fn._sv_view = fn  # type: ignore[attr-defined]
            return fn
        wrapper = ast.Module(body=[node], type_ignores=[])
        forward_substitute_temps(wrapper)
        _set_parents(wrapper)
        view = Func(fn.module, fn.qual, node, cls=fn.cls, parent=fn.parent)
        view.local_imports = dict(fn.local_imports)
        for n in _walk_own(node):
            if isinstance(n, (ast.FunctionDef, ast.AsyncFunctionDef)) and n.name in fn.children:
                view.children[n.name] = Func(fn.module, fn.children[n.name].qual, n, parent=view)
            elif isinstance(n, (ast.Import, ast.ImportFrom)):
                pass
        view.local_imports.update(_collect_imports([x for x in _walk_own(node) if isinstance(x, (ast.Import, ast.ImportFrom))], fn.module.name, getattr(fn.module, "is_pkg", False)))
        view.inlined = done  # type: ignore[attr-defined]
        fn._sv_view = view  # type: ignore[attr-defined]
        return view

    def func_opt(self, modname: str, qual: str) -> Optional[Func]:
        try:
            m = self.module(modname)
        except AnalysisError:
            return None
        return m.funcs.get(qual)

    def cls(self, modname: str, name: str) -> ClassInfo:
        m = self.module(modname)
        if name not in m.classes:
            raise AnalysisError(f"anchor class vanished: {m.name}:{name}")
        return m.classes[name]

    def all_funcs(self, include_trusted=False) -> Iterator[Func]:
        for m in self.modules.values():
            if m.trusted and not include_trusted:
                continue
            yield from m.funcs.values()

    def resolve_import(self, target: Tuple[str, Optional[str]]):
        """(module, attr) -> Func | ClassInfo | Module | ('const', expr, module) | None."""
        modname, attr = target
        seen = set()
        while True:
            if (modname, attr) in seen:
                return None
            seen.add((modname, attr))
            if attr is None:
                return self.modules.get(modname)
            m = self.modules.get(modname)
            if m is None:
                # maybe "from pkg import submodule"
                return None
            if attr in m.funcs and "." not in attr:
                return m.funcs[attr]
            if attr in m.classes:
                return m.classes[attr]
            if attr in m.consts:
                return ("const", m.consts[attr], m)
            if attr in m.imports:
                modname, attr = m.imports[attr]
                continue
            sub = f"{modname}.{attr}"
            if sub in self.modules:
                return self.modules[sub]
            return None

    def lookup_name(self, scope, name: str):
        """Resolve a bare name seen in `scope` (Func or Module) to a program entity."""
        fn = scope if isinstance(scope, Func) else None
        mod = scope.module if isinstance(scope, Func) else scope
        f = fn
        while f is not None:
            if name in f.children:
                return f.children[name]
            if name in f.local_imports:
                return self.resolve_import(f.local_imports[name])
            f = f.parent
        if name in mod.funcs and "." not in name:
            return mod.funcs[name]
        if name in mod.classes:
            return mod.classes[name]
        if name in mod.imports:
            return self.resolve_import(mod.imports[name])
        if name in mod.consts:
            return ("const", mod.consts[name], mod)
        return None

    def resolve_class(self, mod_or_func, expr: str) -> Optional[ClassInfo]:
        expr = expr.strip().strip('"').strip("'")
        if expr.startswith("Optional[") and expr.endswith("]"):
            expr = expr[len("Optional["):-1].strip().strip('"').strip("'")
        head = expr.split("[")[0]
        parts = head.split(".")
        ent = self.lookup_name(mod_or_func, parts[0])
        for p in parts[1:]:
            if isinstance(ent, Module):
                ent = self.resolve_import((ent.name, p))
            else:
                return None
        return ent if isinstance(ent, ClassInfo) else None

    def mro(self, ci: ClassInfo) -> List[ClassInfo]:
        out, seen = [], set()

        def rec(c):
            if c.fq in seen:
                return
            seen.add(c.fq)
            out.append(c)
            for b in c.bases:
                bc = self.resolve_class(c.module, b)
                if bc is not None:
                    rec(bc)

        rec(ci)
        return out

    def subclasses(self, ci: ClassInfo, transitive=True) -> List[ClassInfo]:
        out, todo, seen = [], list(self._subclasses.get(ci.fq, [])), set()
        while todo:
            c = todo.pop()
            if c.fq in seen:
                continue
            seen.add(c.fq)
            out.append(c)
            if transitive:
                todo.extend(self._subclasses.get(c.fq, []))
        return out

    def find_method(self, ci: ClassInfo, name: str, skip_self=False) -> Optional[Func]:
        for c in self.mro(ci)[1 if skip_self else 0:]:
            if name in c.methods:
                return c.methods[name]
        return None

    def class_const(self, ci: ClassInfo, name: str) -> Optional[ast.expr]:
        for c in self.mro(ci):
            if name in c.attrs:
                return c.attrs[name]
        return None


def _own_stmts(fn_node) -> List[ast.stmt]:
    return list(fn_node.body)


def _walk_own(fn_node) -> Iterator[ast.AST]:
    """Walk a function body without descending into nested defs/classes/lambdas."""
    todo = list(fn_node.body) if hasattr(fn_node, "body") and isinstance(fn_node.body, list) else [fn_node.body]
    while todo:
        n = todo.pop()
        yield n
        if isinstance(n, (ast.FunctionDef, ast.AsyncFunctionDef, ast.ClassDef, ast.Lambda)):
            # a nested definition: yielded, but its body belongs to another scope
            continue
        for c in ast.iter_child_nodes(n):
            todo.append(c)


def walk_own(fn_node) -> Iterator[ast.AST]:
    return _walk_own(fn_node)


def walk_expr(node: ast.AST) -> Iterator[ast.AST]:
    """Walk an expression/statement without descending into nested def/lambda bodies."""
    todo = [node]
    while todo:
        n = todo.pop()
        yield n
        for c in ast.iter_child_nodes(n):
            if isinstance(c, (ast.FunctionDef, ast.AsyncFunctionDef, ast.ClassDef, ast.Lambda)):
                continue
            todo.append(c)


def enclosing_func_node(node: ast.AST):
    p = parent(node)
    while p is not None and not isinstance(p, (ast.FunctionDef, ast.AsyncFunctionDef, ast.Lambda)):
        p = parent(p)
    return p


def norm(node: ast.AST) -> str:
    """Normalised source text of a construct (stable under re-formatting)."""
    c = getattr(node, "_sv_norm", None)
    if c is not None:
        return c
    try:
        c = ast.unparse(node)
    except Exception:  # noqa: BLE001
        c = ast.dump(node)
    try:
        node._sv_norm = c  # type: ignore[attr-defined]
    except Exception:  # noqa: BLE001
        pass
    return c
