#!/venv/bin/python
"""Confirm seeded changes:  for each /verif/seeded/<id>/ (patch.diff, demo.py, meta.json)
 - the patch applies to a scratch copy of /repo (HEAD working tree),
 - the pinned test suite still passes with it,
 - the demonstration fails with it and passes without it,
 - which of my checks report it.
Results are written back into meta.json ("confirmed": {...}).  Scratch copies are removed."""
from __future__ import annotations

import json
import os
import shutil
import subprocess
import sys
import tempfile
from concurrent.futures import ProcessPoolExecutor

HERE = os.path.dirname(os.path.abspath(__file__))
VERIF = os.path.dirname(HERE)
SEEDED = os.path.join(VERIF, "seeded")
PY = "/venv/bin/python"
PIDS = [f"C{i:02d}" for i in range(1, 21)]


def sh(cmd, cwd=None, env=None, timeout=1200):
    r = subprocess.run(cmd, cwd=cwd, env=env, capture_output=True, text=True, timeout=timeout)
    return r.returncode, (r.stdout + r.stderr)


def verify(sid: str, run_tests=True):
    d = os.path.join(SEEDED, sid)
    patch = os.path.join(d, "patch.diff")
    demo = os.path.join(d, "demo.py")
    meta_p = os.path.join(d, "meta.json")
    meta = json.load(open(meta_p))
    tmp = tempfile.mkdtemp(prefix="svseed-")
    res = {}
    try:
        for sub in ("src", "tests", "pyproject.toml"):
            s = os.path.join("/repo", sub)
            if os.path.isdir(s):
                shutil.copytree(s, os.path.join(tmp, sub))
            else:
                shutil.copy(s, os.path.join(tmp, sub))
        env = dict(os.environ, PYTHONPATH=os.path.join(tmp, "src"), PYTHONDONTWRITEBYTECODE="1")
        rc, out = sh([PY, demo], cwd=tmp, env=env, timeout=600)
        res["demo_without_patch"] = "pass" if rc == 0 else f"FAIL rc={rc}: {out[-300:]}"
        rc, out = sh(["patch", "-p1", "-s", "-i", patch], cwd=tmp)
        res["applies"] = rc == 0
        if rc != 0:
            res["apply_output"] = out[-500:]
        else:
            rc, out = sh([PY, demo], cwd=tmp, env=env, timeout=600)
            res["demo_with_patch"] = "fails (as intended)" if rc != 0 else "PASSES (not a demonstration)"
            if run_tests and not os.environ.get('SV_NO_TESTS'):
                rc, out = sh([PY, "-m", "pytest", "-q", "-p", "no:cacheprovider", "--timeout=900", "-x"], cwd=tmp, env=env, timeout=1800)
                import re as _re
                tail = [l for l in out.strip().splitlines() if _re.search(r"\d+ (passed|failed|error)", l)]
                res["tests_with_patch"] = ("pass: " + (tail[-1].strip("= ") if tail else "rc=0")) if rc == 0 else f"FAIL rc={rc}: " + (tail[-1] if tail else out[-300:])
            caught = {}
            env2 = dict(os.environ, SV_EVIDENCE_DIR=os.path.join(tmp, "ev"), SV_OUT_DIR=os.path.join(tmp, "out"))
            if os.environ.get("SV_PER_PROCESS"):
                for pid in PIDS:
                    rc, out = sh([PY, os.path.join(HERE, "run.py"), pid, "--repo", tmp], env=env2)
                    if rc != 0:
                        rules = sorted({l.split("rule=")[1].split()[0] for l in out.splitlines() if "rule=" in l})
                        caught[pid] = {"exit": rc, "rules": rules} if rc == 1 else {"exit": rc, "output": out[-300:]}
            else:
                rc, out = sh([PY, os.path.join(HERE, "runall.py"), "--repo", tmp], env=env2)
                allres = json.loads(out.strip().splitlines()[-1])
                for pid, r in allres.items():
                    if r["exit"] != 0:
                        caught[pid] = {"exit": r["exit"], "rules": r["rules"]} if r["exit"] == 1 else {"exit": r["exit"], "output": r["output"][-300:]}
            res["checks_reporting"] = caught
    finally:
        shutil.rmtree(tmp, ignore_errors=True)
    if os.environ.get('SV_NO_TESTS') and "confirmed" in meta and "tests_with_patch" in meta["confirmed"]:
        res["tests_with_patch"] = meta["confirmed"]["tests_with_patch"]
    meta["confirmed"] = res
    json.dump(meta, open(meta_p, "w"), indent=1)
    return sid, res


def report():
    for sid in sorted(os.listdir(SEEDED)):
        mp = os.path.join(SEEDED, sid, "meta.json")
        if not os.path.exists(mp):
            continue
        res = json.load(open(mp)).get("confirmed", {})
        c = res.get("checks_reporting", {})
        hit = [f"{p}:{','.join(v.get('rules', []) or ['exit2'])}" for p, v in c.items()]
        print(f"{sid}: applies={res.get('applies')} tests={str(res.get('tests_with_patch'))[-40:]} demo-/+={str(res.get('demo_without_patch'))[:12]}/{str(res.get('demo_with_patch'))[:6]} caught-by={hit or 'NONE'}")


def main():
    if sys.argv[1:] == ["--report"]:
        return report()
    ids = sys.argv[1:] or sorted(x for x in os.listdir(SEEDED) if os.path.isdir(os.path.join(SEEDED, x)))
    with ProcessPoolExecutor(max_workers=12) as ex:
        for sid, res in ex.map(verify, ids):
            own = sid.split("-")[0]
            c = res.get("checks_reporting", {})
            hit = [f"{p}:{','.join(v.get('rules', []) or ['exit2'])}" for p, v in c.items()]
            print(f"{sid}: applies={res.get('applies')} tests={res.get('tests_with_patch')} demo-/+={res.get('demo_without_patch')}/{res.get('demo_with_patch')} caught-by={hit or 'NONE'}")


if __name__ == "__main__":
    main()
