#!/venv/bin/python
"""Collect behaviour-preserving refactors written by sub-agents and run every check on each.

  verify_benign.py --collect /tmp/wt      copy /tmp/wt/Bxx/_out/b<i>.diff (+meta) into /verif/benign/Cxx-b<i>/
  verify_benign.py [ids...]               apply each to a scratch copy, run the test-suite (unless SV_NO_TESTS)
                                          and all 20 checks; any exit != 0 is a FALSE ALARM to triage
  verify_benign.py --report
"""
from __future__ import annotations

import glob
import json
import os
import shutil
import subprocess
import sys
import tempfile
from concurrent.futures import ProcessPoolExecutor

HERE = os.path.dirname(os.path.abspath(__file__))
VERIF = os.path.dirname(HERE)
BENIGN = os.path.join(VERIF, "benign")
PY = "/venv/bin/python"
PIDS = [f"C{i:02d}" for i in range(1, 21)]


def collect(root: str, prefix: str = "B", tag: str = "b") -> None:
    for d in sorted(glob.glob(os.path.join(root, prefix + "*"))):
        pid = "C" + os.path.basename(d)[len(prefix):]
        for diff in sorted(glob.glob(os.path.join(d, "_out", "b*.diff"))):
            i = os.path.basename(diff)[1:-5]
            meta = os.path.join(d, "_out", f"b{i}_meta.json")
            dest = os.path.join(BENIGN, f"{pid}-{tag}{i}")
            if os.path.exists(os.path.join(dest, "patch.diff")):
                continue
            if os.path.getsize(diff) == 0:
                continue
            os.makedirs(dest, exist_ok=True)
            shutil.copy(diff, os.path.join(dest, "patch.diff"))
            try:
                m = json.load(open(meta))
            except Exception:  # noqa: BLE001
                m = {"property": pid, "summary": "(meta missing)"}
            json.dump(m, open(os.path.join(dest, "meta.json"), "w"), indent=1)
            print("collected", dest)


def sh(cmd, cwd=None, env=None, timeout=1800):
    r = subprocess.run(cmd, cwd=cwd, env=env, capture_output=True, text=True, timeout=timeout)
    return r.returncode, r.stdout + r.stderr


def verify(bid: str):
    d = os.path.join(BENIGN, bid)
    meta_p = os.path.join(d, "meta.json")
    meta = json.load(open(meta_p))
    tmp = tempfile.mkdtemp(prefix="svben-")
    res = {}
    try:
        for sub in ("src", "tests", "pyproject.toml"):
            s = os.path.join("/repo", sub)
            (shutil.copytree if os.path.isdir(s) else shutil.copy)(s, os.path.join(tmp, sub))
        rc, out = sh(["patch", "-p1", "-s", "-f", "-i", os.path.join(d, "patch.diff")], cwd=tmp)
        res["applies"] = rc == 0
        if rc == 0:
            if not os.environ.get("SV_NO_TESTS"):
                env = dict(os.environ, PYTHONPATH=os.path.join(tmp, "src"), PYTHONDONTWRITEBYTECODE="1")
                rc, out = sh([PY, "-m", "pytest", "-q", "-p", "no:cacheprovider", "--timeout=900", "-x"], cwd=tmp, env=env)
                import re

                tail = [l for l in out.strip().splitlines() if re.search(r"\d+ (passed|failed|error)", l)]
                res["tests_with_patch"] = ("pass: " + (tail[-1].strip("= ") if tail else "rc=0")) if rc == 0 else "FAIL: " + (tail[-1] if tail else out[-200:])
            elif "confirmed" in meta:
                res["tests_with_patch"] = meta["confirmed"].get("tests_with_patch")
            alarms = {}
            env2 = dict(os.environ, SV_EVIDENCE_DIR=os.path.join(tmp, "ev"), SV_OUT_DIR=os.path.join(tmp, "out"))
            if os.environ.get("SV_PER_PROCESS"):
                for pid in PIDS:
                    rc, out = sh([PY, os.path.join(HERE, "run.py"), pid, "--repo", tmp], env=env2)
                    if rc != 0:
                        rules = sorted({l.split("rule=")[1].split()[0] for l in out.splitlines() if "rule=" in l})
                        alarms[pid] = {"exit": rc, "rules": rules, "output": out[-1500:]}
            else:
                rc, out = sh([PY, os.path.join(HERE, "runall.py"), "--repo", tmp], env=env2)
                allres = json.loads(out.strip().splitlines()[-1])
                for pid, r in allres.items():
                    if r["exit"] != 0:
                        alarms[pid] = {"exit": r["exit"], "rules": r["rules"], "output": r["output"][-1500:]}
            res["alarms"] = alarms
    finally:
        shutil.rmtree(tmp, ignore_errors=True)
    meta["confirmed"] = res
    json.dump(meta, open(meta_p, "w"), indent=1)
    return bid, res


def report():
    n = a = 0
    for bid in sorted(os.listdir(BENIGN)):
        mp = os.path.join(BENIGN, bid, "meta.json")
        if not os.path.exists(mp):
            continue
        m = json.load(open(mp))
        res = m.get("confirmed", {})
        n += 1
        al = res.get("alarms", {})
        if al or not res.get("applies", True):
            a += 1
        print(f"{bid}: applies={res.get('applies')} tests={str(res.get('tests_with_patch'))[:40]} alarms={ {p: v['rules'] or ['exit%s' % v['exit']] for p, v in al.items()} or 'none'}")
    print(f"{n} benign variants, {a} with alarms")


def main():
    if sys.argv[1:2] == ["--collect"]:
        return collect(*sys.argv[2:5])
    if sys.argv[1:] == ["--report"]:
        return report()
    ids = sys.argv[1:] or sorted(x for x in os.listdir(BENIGN) if os.path.isdir(os.path.join(BENIGN, x)))
    with ProcessPoolExecutor(max_workers=12) as ex:
        for bid, res in ex.map(verify, ids):
            al = res.get("alarms", {})
            print(f"{bid}: applies={res.get('applies')} tests={str(res.get('tests_with_patch'))[:40]} alarms={ {p: v['rules'] or ['exit%s' % v['exit']] for p, v in al.items()} or 'none'}")


if __name__ == "__main__":
    main()
