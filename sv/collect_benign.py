#!/venv/bin/python
"""collect_benign.py <root> <dirprefix> <tag>: copy <root>/<dirprefix>NN/_out/b<i>.{diff,_meta.json} into /verif/benign/CNN-<tag><i>/."""
import glob, json, os, shutil, sys
root, prefix, tag = sys.argv[1:4]
n = 0
for d in sorted(glob.glob(os.path.join(root, prefix + "*"))):
    pid = "C" + os.path.basename(d)[len(prefix):]
    for diff in sorted(glob.glob(os.path.join(d, "_out", "b*.diff"))):
        i = os.path.basename(diff)[1:-5]
        meta = os.path.join(d, "_out", f"b{i}_meta.json")
        if not os.path.exists(meta) or os.path.getsize(diff) == 0:
            continue
        dest = os.path.join("/verif/benign", f"{pid}-{tag}{i}")
        if os.path.exists(os.path.join(dest, "patch.diff")):
            continue
        os.makedirs(dest, exist_ok=True)
        shutil.copy(diff, os.path.join(dest, "patch.diff"))
        try:
            m = json.load(open(meta))
        except Exception:
            m = {"property": pid, "summary": "(meta unreadable)"}
        m.setdefault("property", pid)
        json.dump(m, open(os.path.join(dest, "meta.json"), "w"), indent=1)
        n += 1
print("collected", n)
